#!/bin/sh
# Builds the verifier from files on disk only (vendored dependencies).
set -e
cd "$(dirname "$0")/govc"
export GOFLAGS=-mod=vendor GOPROXY=off GOSUMDB=off GOTOOLCHAIN=local GOWORK=off
mkdir -p ../bin
go build -o ../bin/govc .
echo "govc built: $(../bin/govc -version 2>/dev/null || true)"
