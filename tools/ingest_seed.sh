#!/bin/bash
# ingest_seed.sh <Cxx> <suffix>: copies the deliverables of a seeding agent (/tmp/wt_<Cxx><suffix>/_seed) into
# /verif/seeded/<Cxx>_<suffix>, re-confirms them (seeded/verify.sh), runs the quick check of the property on the
# overlaid tree (tools/run_seeds.py) and removes the agent's worktree.
p=$1; s=$2; id=${p}_${s}; wt=/tmp/wt_${p}${s}
mkdir -p /verif/seeded/$id
cp $wt/_seed/patch.diff $wt/_seed/meta.json /verif/seeded/$id/ || exit 2
cp $wt/_seed/*_test.go /verif/seeded/$id/ || exit 2
git -C /repo worktree remove --force $wt >/dev/null 2>&1; rm -rf $wt /tmp/*${p}${s}_export /tmp/${p,,}${s}_export 2>/dev/null
cd /verif
bash seeded/verify.sh $id 2>&1 | grep -E "^RESULT"
[ -n "$NO_RUN" ] || python3 tools/run_seeds.py $id 2>&1 | tail -1
