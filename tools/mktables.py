#!/usr/bin/env python3
"""Prints the markdown tables of DESIGN.md 10.5 / 10.6 from /verif/evidence/*.json and /verif/seeded/RESULTS.json."""
import json, os, glob
V = os.path.dirname(os.path.dirname(os.path.abspath(__file__)))
print("| property | functions under contract | obligations claimed | discharged | not claimed | open known findings | quick check (s) |")
print("|---|---|---|---|---|---|---|")
for f in sorted(glob.glob(os.path.join(V, 'evidence', 'C*.json'))):
    d = json.load(open(f)); c = d['coverage']
    print("| %s | %d | %d | %d | %d | %d | %.0f |" % (d['property_id'], len(c.get('functions') or []), c['obligations'], c['discharged'],
          len(c.get('unclaimed_obligations') or []), len(c.get('known_findings_printed') or []), d['wall_s']))
print()
res = json.load(open(os.path.join(V, 'seeded', 'RESULTS.json')))
print("| seeded change | property | caught by the quick check | first failing obligations |")
print("|---|---|---|---|")
for s in sorted(res):
    for p, r in res[s].items():
        obs = '; '.join('`' + o[:110] + '`' for o in r.get('failing_obligations', [])[:2])
        print("| %s | %s | %s | %s |" % (s, p, 'yes' if r['caught'] else 'NO', obs))
