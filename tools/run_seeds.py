#!/usr/bin/env python3
"""Runs every seeded defect (/verif/seeded/<id>/patch.diff) through the quick check of the properties it breaks
(govc -overlay-patch: the patch is applied as an overlay, /repo is not touched) and records which obligations fail.
Usage: run_seeds.py [seed ...]   -> /verif/seeded/RESULTS.json"""
import json, os, re, subprocess, sys, time
V = os.path.dirname(os.path.dirname(os.path.abspath(__file__)))
seeds = sorted(d for d in os.listdir(os.path.join(V, 'seeded')) if os.path.isfile(os.path.join(V, 'seeded', d, 'patch.diff')))
if len(sys.argv) > 1:
    seeds = [s for s in seeds if s in sys.argv[1:]]
resf = os.path.join(V, 'seeded', 'RESULTS.json')
res = json.load(open(resf)) if os.path.exists(resf) else {}
for s in seeds:
    meta = {}
    try:
        meta = json.load(open(os.path.join(V, 'seeded', s, 'meta.json')))
    except Exception:
        pass
    props = [meta.get('property') or s.split('_')[0]] + list(meta.get('also_breaks', []))
    props = [p for p in dict.fromkeys(props) if re.match(r'^C\d\d$', p or '')]
    out = {}
    for p in props:
        t0 = time.time()
        r = subprocess.run([os.path.join(V, 'bin', 'govc'), '-props', p, '-overlay-patch', os.path.join(V, 'seeded', s, 'patch.diff'),
                            '-evidence', '/tmp/ev_seed', '-replaydir', '/tmp/rp_seed', '-timeout', '5', '-j', os.environ.get('SEED_J', '14'), '-no-mutants'],
                           capture_output=True, text=True)
        lines = r.stdout.splitlines()
        viol = [l for l in lines if l.startswith('VIOLATION') and ('property=' + p) in l]
        # obligations listed under this property's block
        obls = []
        for l in lines:
            m = re.match(r'\s+obligation (\S.*?) \[(violated|timeout|unknown|error)\]', l)
            if m and m.group(1) not in obls:
                obls.append(m.group(1))
        summ = [l for l in lines if l.startswith('property ' + p)]
        out[p] = {'caught': bool(viol), 'violations': len(viol), 'failing_obligations': obls[:8], 'summary': summ[-1] if summ else '',
                  'undecided': [l for l in lines if l.startswith('UNDECIDED')][:3], 'secs': round(time.time() - t0, 1)}
        print(s, p, 'CAUGHT' if viol else 'missed', out[p]['summary'], flush=True)
    res[s] = out
    json.dump(res, open(resf, 'w'), indent=1)
