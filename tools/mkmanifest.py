#!/usr/bin/env python3
"""Generates /verif/MANIFEST.json from the table below and /verif/claimed.txt (one property id per line).
Properties not listed in claimed.txt go to not_applicable with the reason given here."""
import json, subprocess, sys, os

V = os.path.dirname(os.path.dirname(os.path.abspath(__file__)))
baseline = json.load(open('/root/.vp/BASELINE.json'))['cmd']

TECH = "contract-based deductive verification: WP-style VC generation over go/ssa of the real code, contracts in build-tag-guarded comment files, obligations discharged by z3-new/z3/cvc5"
NOTE = ("trusted: go/packages+go/ssa lowering, govc itself, the SMT solvers; assumed contracts of dependencies and interface "
        "contracts (listed with instantiation counts in the evidence), type invariants of wire-decoded messages, entry-point "
        "preconditions without verified caller, mathematical integers except where wrap is stated; obligations listed in "
        "contracts/unclaimed.txt are generated but not claimed")

P = {
 "C01": ("Contracts on the real mutation path, discharged for every input: validTimestamp, getFamily/getColumn, getOrCreateFamily/Column (row invariants rowOK/famSep/colSep/rowDesc preserved), appendOrReplaceCell (cells stay strictly descending, no duplicate timestamp), applyMutations (error iff some mutation is invalid per the API rules - unknown family, bad timestamp, inverted range, unknown kind -, row invariants kept, in-place compaction of DeleteFromColumn), scrubFam/scrubRow (no empty column or family survives, survivors are input families, columns sorted), updateRow as the only commit point (ghost commit counter), MutateRow/MutateRows (entry status OK iff all mutations of the entry are valid, commit only then, exactly once). The induction over request sequences is argued in DESIGN.md, not mechanised", "6 C01, 10"),
 "C02": ("Contracts of the upload/download handlers: finishUpload MD5 gate and store gating behind a successful validateConds in the same key-lock section, resumable upload assembly (a chunk with range [lo,hi] is appended at offset lo exactly, carries hi+1-lo bytes; slice bounds for every Content-Range), parseByteRange, multipart parsing safety, the contents handed to finishUpload are exactly what the single read of the request body returned (io.ReadAll on r.Body / readMultipartInsert), media download paths, delete; routing by regexp, HTTP framing, gzip/multipart libraries are trusted", "6 C02, 10"),
 "C03": ("validateRowRanges (error iff some range is malformed), mergeSimpleRanges/mergeRowRanges (union preserved for an arbitrary rigid key, output ordered and disjoint, closed/open bounds via the successor lemma that is proved each run), chunkBuilder.add (shape of the chunk stream, commit flag only on the last chunk, result iff something appended), ReadRows/SampleRowKeys: NotFound/InvalidArgument, every merged range is scanned exactly once, in order, with exactly its bounds, limit accounting, lock discipline incl. the lock reversal while sending", "6 C03, 10"),
 "C04": ("validateConds proved against the complete truth table of the property for all int64 generations/metagenerations; parseConds parses each parameter or fails; status mapping; every store mutation of every handler requires a successful validateConds on the object read inside the same key-lock section (protocol ghosts gcsReadEpoch/gcsReadObj/gcsValidEpoch on GetMeta/validateConds/Add/UpdateMeta/Delete/locks.Run)", "6 C04, 10"),
 "C05": ("includeCell (column/value/timestamp range semantics with open/closed/unset ends, regex kinds), filterCells, modifyCell, newRegexp/escapeUTF, scrubFam/scrubRow fully discharged; filterRow: argument validation (InvalidArgument for false pass/block, <2 sub-filters, negative counts, bad sample probability), cells-per-column/row limit and offset semantics, chain via the recursive contract, valid leaf filters never fail, row-key regex, panic-freedom outside the Interleave merge; the Interleave merge loops and some frame clauses are listed as not claimed; regexp semantics trusted; the data-dependent validation of per-cell filter arguments is an open known finding", "6 C05, 10"),
 "C06": ("Sequential / thread-modular kernel only: failure atomicity (updateRow unreachable on error paths, commit counter), reads are private deep-fresh copies (rowFresh), lock discipline (guard/balance/lock-order obligations), and the read protocol: a row is written back only in the critical section (epoch) in which the thread's last store read began, only a row object allocated in that critical section (protocol ghost btReadEpoch, csStart()), and never while an iteration over the rows is in progress (btIterating); the linearizability theorem itself is argued from these premises, not machine-checked", "6 C06, 7.2, 10"),
 "C07": ("Lock-discipline kernel only: every object mutation inside locks.Run on the key of the mutated object, check-then-act in one key critical section (validated protocol, see C04), memstore registry and bucket trees accessed under their mutexes (guarded_by), nil-bucket race fixed; file-store torn reads and history-level serialisability are not decided", "6 C07, 7.2, 10"),
 "C08": ("Persistence protocol at request boundaries: a successful CreateTable / ModifyColumnFamilies persists the live definition exactly once and a failed one not at all (ghost counter btMetaOps on Storage.Create/SetTableMeta), tmp file then rename order in SetTableMeta, Open does not delete and Create does, engines' row writes are a single Put/Delete of that row's key (ghost trace of leveldb operations); crash points inside leveldb/Create/Clear are not decided; DeleteTable persistence is an open known finding", "6 C08, 7.2, 10"),
 "C09": ("Both stores verified against one Store interface contract (behavioural subtyping, impl-variant units) plus their own contracts: metadata scrubbing/initialisation, URLs as functions of (base, bucket, name), file paths as functions of (dir, bucket, name), Add/UpdateMeta/Copy/Delete effects, file store statelessness via a ghost count of file-system mutations; the walk-order difference is an open known finding", "6 C09, 10"),
 "C10": ("Add stores metageneration 1 and a clock reading as generation whatever the caller passes, UpdateMeta keeps generation/md5/content and sets the given metageneration, handlers pass (metageneration read in this critical section)+1 (protocol ghost gcsReadMetagen), rewrite reports the destination metadata only after a successful Store.Copy of exactly the request's source and destination (also onto itself); strict growth of generations only under the named clock assumption", "6 C10, 10"),
 "C11": ("greaterThanPrefix/lessThanPrefix against the prefix order (five byte-string lemmas as listed axioms), walk-callback invariants (count bound, recorded items carry the prefix and exceed the cursor, collapsed prefixes once, slice indices in bounds), parameter validation, page-token codec round trip; chain-of-pages statement argued; page-token progress and UTF-8 names are open known findings", "6 C11, 10"),
 "C12": ("CheckAndMutateRow: predicate evaluated on a deep-fresh copy (modifyCell returns fresh cells for transforming filters, so the stored row is not touched), without a filter PredicateMatched == row has a cell, exactly req.TrueMutations / req.FalseMutations as selected is passed to applyMutations together with the unfiltered row, errors commit nothing (commit counter), updateRow only after a nil applyMutations", "6 C12, 10"),
 "C13": ("ReadModifyWriteRow per rule (call-site assertions): unknown family rejected before any change, increment on a non-8-byte value rejected, new cell timestamp == max(clock truncated to ms, newest timestamp of that column), append concatenates to the newest value, increment is 64-bit wrapping arithmetic on the decoded newest value (stated at the encoder's argument), one commit after all rules, none on error", "6 C13, 10"),
 "C14": ("Registry semantics of CreateTable/DeleteTable/GetTable/ListTables (AlreadyExists/NotFound, exact key set, nothing else changes), ModifyColumnFamilies all-or-nothing with the exact per-family effect and persistence of the fully validated batch, a request with a Drop persists the schema only after exactly one purge pass whose changed rows are written back after the iteration (never during it), DropRowRange (only keys with the prefix are deleted, Clear only for delete-all, schema untouched), responses are private copies, lock discipline", "6 C14, 10"),
 "C15": ("finishCompose (more than 32 sources and only that is answered 'too many sources', missing/nil source and destination, per-source preconditions before the single Add, validated protocol; content: exactly one Store.Get per source in request order, the bytes given to the single Store.Add are the concatenation in call order of what those Gets returned, appended into a buffer the function owns), handleGcsCopy path splitting in bounds for every input, destination object names may contain \"/o/\", destination key locked; copy store contracts; destination names containing \"/compose\" are an open known finding", "6 C15, 10"),
 "C16": ("applyGC proved for all rules/cells/clock values (result is a prefix, MaxNumVersions exact count, MaxAge boundary, Union/Intersection), table.gc: the pass works in batches, each read, collected and written back inside one critical section (read protocol: btReadEpoch == epoch, row allocated in this critical section) and never during the iteration (btIterating); per row: families without a rule untouched, changed flag true iff some column lost cells, the rows of a batch are pairwise disjoint deep-fresh copies satisfying updateRow's preconditions; lock reversal balanced, quiescence guard", "6 C16, 10"),
 "C17": ("btreeRows and leveldbRows methods each verified against the same Rows interface contract (behavioural subtyping) over assumed btree/leveldb/protobuf contracts: Get returns nil or a deep-fresh well-formed row with that key, scans deliver such rows and stop on false, range bounds of the library scan equal the requested bounds; panics on library errors are listed as not claimed (environment failures)", "6 C17, 10"),
 "C19": ("Safety kernel only: countedLock.Lock/Unlock verified against an assumed one-slot channel protocol (send enabled iff slot empty, receive iff full; a false Lock leaves the slot unchanged and implies the context ended), TransientLockMap Lock/Unlock/Run/returnLockObj: refcount and map-entry bookkeeping under l.mu (guarded_by incl. the foreign lock), entries present iff referenced, Unlock panics iff the key is not held; deadlock freedom and lost wake-ups are not decided", "6 C19, 7.2, 10"),
 "C20": ("Zero-annotation safety sweep over every function of the three packages (nil dereference, index, slice bounds, type assertion, division, nil-map write, explicit panic) under stated wire/HTTP validity assumptions, plus preconditions of every call, lock balance, lock order and guarded_by obligations; races outside the lockset discipline, hangs in libraries and resource exhaustion are not decided; panics on storage-library errors are listed as not claimed", "6 C20, 7.2, 10"),
}
NA = {
 "C18": "not applicable to contract-based verification: the statement is only about interleavings of one multi-message scan with concurrent writers (a relation between returned values and the history of other threads' writes); its mechanism is goleveldb's snapshot iterator, third-party code for which only an assumed contract exists (DESIGN.md 7.1)",
}

def main():
    claimed = [l.strip() for l in open(os.path.join(V, 'claimed.txt')) if l.strip() and not l.startswith('#')]
    props = [json.loads(l) for l in open(os.path.join(V, 'properties.jsonl'))]
    commits = subprocess.check_output(['git', '-C', '/repo', 'log', '--format=%H %s']).decode().splitlines()
    hook_commits = [c.split()[0] for c in commits if ' verif:' in c]
    checks = []
    na = []
    for p in props:
        pid = p['id']
        if pid in claimed and pid in P:
            text, ref = P[pid]
            checks.append({
                "property_id": pid,
                "quick_cmd": f"./check {pid}",
                "thorough_cmd": f"./check {pid} --tier thorough",
                "evidence_file": f"evidence/{pid}.json",
                "replay_cmd_template": "./check replay {path}",
                "engine": "govc",
                "level_claimed": {"category": "proof", "text": text, "design_ref": "DESIGN.md " + ref + " and 0a"},
                "level_note": NOTE,
                "technique": TECH,
            })
        else:
            reason = NA.get(pid, "not claimed: " + (P[pid][0][:0] if pid in P else "") + "the contracts written for this property do not yet discharge a meaningful kernel within the budgets (see DESIGN.md 0a); no other technique is substituted")
            na.append({"property_id": pid, "reason": reason})
    man = {
        "version": 1,
        "setup_cmd": "./setup.sh",
        "hooks": {"guard": "verif",
                  "enable": "go/packages load with -tags=verif: the hooks are comment-only contract files zz_verif_contracts*.go (//go:build verif)",
                  "baseline_off_cmd": baseline,
                  "source_commits": hook_commits,
                  "add_only": True},
        "engines": [{"name": "govc", "path": "govc/", "serves_properties": [c["property_id"] for c in checks],
                     "kind_free_text": "contract-based deductive verifier for Go written for this task: VC generation over go/ssa of /repo's working tree, contracts as structured comments, SMT back ends z3-new 5.1.0 / z3 4.8.12 / cvc5 1.0"}],
        "checks": checks,
        "notes": "fix: commits in /repo repair genuine defects found by obligations (see known_findings.json, status fixed); open known findings print KNOWN-FINDING lines",
        "not_applicable": na,
    }
    json.dump(man, open(os.path.join(V, 'MANIFEST.json'), 'w'), indent=1)
    print("checks:", [c["property_id"] for c in checks], "not_applicable:", [n["property_id"] for n in na])

main()
