#!/usr/bin/env python3
"""Generates /verif/MANIFEST.json from the table below and /verif/claimed.txt (one property id per line).
Properties not listed in claimed.txt go to not_applicable with the reason given here."""
import json, subprocess, sys, os

V = os.path.dirname(os.path.dirname(os.path.abspath(__file__)))
baseline = json.load(open('/root/.vp/BASELINE.json'))['cmd']

TECH = "contract-based deductive verification: WP-style VC generation over go/ssa of the real code, contracts in build-tag-guarded comment files, obligations discharged by z3-new/z3/cvc5"
NOTE = ("trusted: go/packages+go/ssa lowering, govc itself, the SMT solvers; assumed contracts of dependencies and interface "
        "contracts (listed with instantiation counts in the evidence), type invariants of wire-decoded messages, entry-point "
        "preconditions without verified caller, mathematical integers except where wrap is stated; obligations listed in "
        "contracts/unclaimed.txt are generated but not claimed")

P = {
 "C01": ("Per-function contracts on the real mutation path: validTimestamp, get/getOrCreate family/column, appendOrReplaceCell (strictly descending, no duplicate timestamps), applyMutations (error iff some mutation is invalid per the API rules, per-kind effects, row well-formedness), scrubFam/scrubRow (no empty column/family, columns sorted), updateRow as the single commit point, MutateRow/MutateRows (entry status and store untouched on error), all for every input; the induction over request sequences is argued, not mechanised", "6 C01"),
 "C02": ("Data-flow and safety contracts of the upload/download handlers: finishUpload MD5 gate and store gating, resumable-upload buffer arithmetic in bounds for every Content-Range, media download paths, delete; routing by regexp, HTTP framing and gzip/multipart parsing are trusted", "6 C02"),
 "C03": ("validateRowRanges (error iff a range is malformed), mergeSimpleRanges/mergeRowRanges (union preserved for an arbitrary rigid key, output ranges ordered and disjoint, bound translation via the proved successor lemma), chunkBuilder.add (chunk stream shape, result iff something appended), ReadRows/SampleRowKeys safety, limit accounting and lock discipline; byte-string order lemmas proved each run", "6 C03"),
 "C04": ("validateConds proved against the complete truth table of the property for all int64 generations/metagenerations, parseConds (exactly unrolled) parses each parameter or fails, status mapping, and the handlers gate every store mutation behind a successful validateConds on the object read inside the same key-lock section", "6 C04"),
 "C05": ("filterRow per case, includeCell (range/timestamp/regex semantics with open/closed/unset ends), filterCells (subsequence), modifyCell (no in-place change), argument validation returns InvalidArgument, panic-freedom for every filter tree and every well-formed row; regexp semantics are trusted; tree-level composition is argued from the per-constructor contracts", "6 C05"),
 "C06": ("Sequential / thread-modular kernel only: failure atomicity (no store write reachable on an error path), private copies from Rows.Get, lock discipline (guard/balance obligations), read and write-back in one critical section (epoch ghost); the linearizability theorem itself is argued from these premises, not machine-checked", "6 C06, 7.2"),
 "C07": ("Lock-discipline kernel only: every object mutation inside locks.Run on the key of the mutated object, check-then-act in one key critical section (epoch ghost on GetMeta/Add/UpdateMeta/Delete), memstore internal lock discipline; file-store torn reads and history-level serialisability are not decided", "6 C07, 7.2"),
 "C08": ("Persistence protocol at request boundaries: SetTableMeta called on every acknowledged schema change, tmp+rename order, Open does not delete, Create does, engines' row writes are single Put/Delete; crash points inside leveldb/Create/Clear are not decided; DeleteTable persistence is a known open finding", "6 C08, 7.2"),
 "C09": ("Both stores verified against one Store interface contract (behavioural subtyping), meta scrubbing/initialisation contracts, file store statelessness; walk order difference is a known open finding", "6 C09"),
 "C10": ("Add stores metageneration 1 and a clock generation whatever the caller passes, UpdateMeta keeps generation/md5/content and sets the given metageneration, handlers pass old+1 read in the same critical section; strict growth of generations only under the named clock assumption", "6 C10"),
 "C11": ("greaterThanPrefix/lessThanPrefix soundness against the prefix order (lemmas as listed axioms), walk-callback invariants (count bound, recorded items have the prefix and exceed the cursor, collapsed prefixes once, slice indices in bounds), parameter validation; the chain-of-pages statement is argued; token progress is a known open finding", "6 C11"),
 "C12": ("CheckAndMutateRow: predicate evaluated on a fresh copy, PredicateMatched == (no predicate ? row non-empty : match && filtered copy non-empty), exactly the selected list applied to the unfiltered row, errors leave the store untouched", "6 C12"),
 "C13": ("ReadModifyWriteRow rule loop: unknown family / non-8-byte value rejected, timestamp = max(clock in ms, newest timestamp of that column) per rule, 64-bit wrap for increments, result row holds the new cells, single commit through updateRow", "6 C13"),
 "C14": ("Registry semantics of CreateTable/DeleteTable/GetTable/ListTables (exact set, AlreadyExists/NotFound), ModifyColumnFamilies all-or-nothing with exact per-family effect, DropRowRange targets and untouched schema, lock discipline", "6 C14"),
 "C15": ("finishCompose (source limit, missing source, per-source preconditions before the single Add, concatenation order invariant), handleGcsCopy path splitting in bounds and destination key locked, copy store contracts", "6 C15"),
 "C16": ("applyGC proved for all rules/cells/clock values (prefix result, MaxNumVersions, MaxAge boundary, Union), table.gc callback (changed flag, families without rule untouched, lock reversal balanced, quiescence guard); the stale-snapshot write-back is a known open finding", "6 C16"),
 "C17": ("btreeRows and leveldbRows methods each verified against the same Rows interface contract over assumed btree/leveldb contracts (behavioural subtyping), incl. stop-on-false iteration", "6 C17"),
 "C19": ("Safety kernel only: refcount/map-entry bookkeeping of TransientLockMap under l.mu (guard, balance, returnLockObj effect, panics-iff for unheld keys), Lock/Unlock/Run protocol against a trusted countedLock contract; deadlock freedom and lost wake-ups are not decided", "6 C19, 7.2"),
 "C20": ("Zero-annotation safety sweep over every function of the three packages (nil dereference, index, slice bounds, type assertion, division, nil-map write, explicit panic) under wire/HTTP validity preconditions, plus lock balance, lock order and guarded_by obligations; races outside the lockset discipline, hangs in libraries and resource exhaustion are not decided", "6 C20, 7.2"),
}
NA = {
 "C18": "not applicable to contract-based verification: the statement is only about interleavings of one multi-message scan with concurrent writers (a relation between returned values and the history of other threads' writes); its mechanism is goleveldb's snapshot iterator, third-party code for which only an assumed contract exists (DESIGN.md 7.1)",
}

def main():
    claimed = [l.strip() for l in open(os.path.join(V, 'claimed.txt')) if l.strip() and not l.startswith('#')]
    props = [json.loads(l) for l in open(os.path.join(V, 'properties.jsonl'))]
    commits = subprocess.check_output(['git', '-C', '/repo', 'log', '--format=%H %s']).decode().splitlines()
    hook_commits = [c.split()[0] for c in commits if ' verif:' in c]
    checks = []
    na = []
    for p in props:
        pid = p['id']
        if pid in claimed and pid in P:
            text, ref = P[pid]
            checks.append({
                "property_id": pid,
                "quick_cmd": f"./check {pid}",
                "thorough_cmd": f"./check {pid} --tier thorough",
                "evidence_file": f"evidence/{pid}.json",
                "replay_cmd_template": "./check replay {path}",
                "engine": "govc",
                "level_claimed": {"category": "proof", "text": text, "design_ref": "DESIGN.md " + ref + " and 0a"},
                "level_note": NOTE,
                "technique": TECH,
            })
        else:
            reason = NA.get(pid, "not claimed: " + (P[pid][0][:0] if pid in P else "") + "the contracts written for this property do not yet discharge a meaningful kernel within the budgets (see DESIGN.md 0a); no other technique is substituted")
            na.append({"property_id": pid, "reason": reason})
    man = {
        "version": 1,
        "setup_cmd": "./setup.sh",
        "hooks": {"guard": "verif",
                  "enable": "go/packages load with -tags=verif: the hooks are comment-only contract files zz_verif_contracts*.go (//go:build verif)",
                  "baseline_off_cmd": baseline,
                  "source_commits": hook_commits,
                  "add_only": True},
        "engines": [{"name": "govc", "path": "govc/", "serves_properties": [c["property_id"] for c in checks],
                     "kind_free_text": "contract-based deductive verifier for Go written for this task: VC generation over go/ssa of /repo's working tree, contracts as structured comments, SMT back ends z3-new 5.1.0 / z3 4.8.12 / cvc5 1.0"}],
        "checks": checks,
        "notes": "fix: commits in /repo repair genuine defects found by obligations (see known_findings.json, status fixed); open known findings print KNOWN-FINDING lines",
        "not_applicable": na,
    }
    json.dump(man, open(os.path.join(V, 'MANIFEST.json'), 'w'), indent=1)
    print("checks:", [c["property_id"] for c in checks], "not_applicable:", [n["property_id"] for n in na])

main()
