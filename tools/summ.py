#!/usr/bin/env python3
"""Summarise a govc log: per unit failing obligations."""
import re, sys, collections
log = open(sys.argv[1]).read().splitlines()
fails = collections.OrderedDict()
seen = set()
for l in log:
    m = re.match(r'\s+obligation (\S+?)/(\S+?)[\[@]', l)
    if m and l.strip() not in seen:
        seen.add(l.strip())
        st = re.search(r'\[(violated|timeout|unknown|error)\]', l)
        fails.setdefault(m.group(1), []).append((m.group(2), st.group(1) if st else '?', l.strip()[:220]))
for k, v in sorted(fails.items(), key=lambda kv: -len(kv[1])):
    kinds = collections.Counter(x[0] for x in v)
    print(f"{len(v):4d} {k}  " + ", ".join(f"{a}:{b}" for a, b in kinds.most_common()))
print("units with failures:", len(fails), "total failing:", sum(len(v) for v in fails.values()))
for l in log:
    if l.startswith("property C20") or l.startswith("govc:") or l.startswith("UNDEC"):
        print(l[:200])
