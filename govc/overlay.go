package main

import (
	"bytes"
	"fmt"
	"os"
	"os/exec"
	"path/filepath"
	"strings"
)

// overlayFromPatch applies a unified diff (paths relative to the repo root, -p1) to copies of the touched
// files and returns an overlay map for go/packages: /repo itself is not modified.
func overlayFromPatch(repo, patchFile, scratch string) (map[string][]byte, error) {
	pb, err := os.ReadFile(patchFile)
	if err != nil {
		return nil, err
	}
	dir := filepath.Join(scratch, "overlay")
	var files []string
	for _, l := range strings.Split(string(pb), "\n") {
		if strings.HasPrefix(l, "+++ b/") {
			files = append(files, strings.TrimSpace(strings.TrimPrefix(l, "+++ b/")))
		}
	}
	if len(files) == 0 {
		return nil, fmt.Errorf("no files in patch")
	}
	for _, f := range files {
		src, err := os.ReadFile(filepath.Join(repo, f))
		if err != nil {
			return nil, err
		}
		dst := filepath.Join(dir, f)
		os.MkdirAll(filepath.Dir(dst), 0o777)
		if err := os.WriteFile(dst, src, 0o666); err != nil {
			return nil, err
		}
	}
	cmd := exec.Command("patch", "-p1", "-s", "--no-backup-if-mismatch", "-d", dir)
	cmd.Stdin = bytes.NewReader(pb)
	if out, err := cmd.CombinedOutput(); err != nil {
		return nil, fmt.Errorf("patch failed: %v: %s", err, out)
	}
	ov := map[string][]byte{}
	for _, f := range files {
		b, err := os.ReadFile(filepath.Join(dir, f))
		if err != nil {
			return nil, err
		}
		ov[filepath.Join(repo, f)] = b
	}
	return ov, nil
}
