package main

import (
	"crypto/sha1"
	"encoding/json"
	"fmt"
	"go/types"
	"os"
	"path/filepath"
	"sort"
	"strings"
	"time"
)

type Report struct {
	Verif, Repo string
	Tier        string
	Seed        int
	Props       []string
	Results     []*unitResult
	Obls        []*Obligation
	CS          *ContractSet
	TLoad, TGen, TSolve time.Duration
	T0          time.Time
	EvidenceDir string
	Verbose     bool
	Timeout     int
	Shared      *Shared
	CrossChecked, CrossDisagree int
	ReplayDir   string
	NoMutants   bool
	Overlay     map[string][]byte
	Jobs        int
}

type knownFinding struct {
	Property   string `json:"property"`
	Obligation string `json:"obligation"`
	Witness    string `json:"witness"`
	Note       string `json:"note,omitempty"`
	Status     string `json:"status"` // open | fixed
	Commit     string `json:"commit,omitempty"`
}

type knownFile struct {
	Findings []knownFinding `json:"findings"`
}

type unclaimedEntry struct {
	pattern string
	reason  string
}

func loadKnown(verif string) []knownFinding {
	b, err := os.ReadFile(filepath.Join(verif, "known_findings.json"))
	if err != nil {
		return nil
	}
	var kf knownFile
	if json.Unmarshal(b, &kf) != nil {
		return nil
	}
	return kf.Findings
}

func loadUnclaimed(verif string) []unclaimedEntry {
	b, err := os.ReadFile(filepath.Join(verif, "contracts", "unclaimed.txt"))
	if err != nil {
		return nil
	}
	var out []unclaimedEntry
	for _, l := range strings.Split(string(b), "\n") {
		l = strings.TrimSpace(l)
		if l == "" || strings.HasPrefix(l, "#") {
			continue
		}
		parts := strings.SplitN(l, "\t", 2)
		e := unclaimedEntry{pattern: strings.TrimSpace(parts[0])}
		if len(parts) > 1 {
			e.reason = strings.TrimSpace(parts[1])
		}
		out = append(out, e)
	}
	return out
}

func globMatch(pat, s string) bool {
	if !strings.Contains(pat, "*") {
		return pat == s
	}
	parts := strings.Split(pat, "*")
	if !strings.HasPrefix(s, parts[0]) {
		return false
	}
	s = s[len(parts[0]):]
	for i := 1; i < len(parts); i++ {
		p := parts[i]
		if i == len(parts)-1 {
			return strings.HasSuffix(s, p)
		}
		j := strings.Index(s, p)
		if j < 0 {
			return false
		}
		s = s[j+len(p):]
	}
	return true
}

// oblProps: the properties an obligation counts for.
func oblProps(o *Obligation) []string {
	ps := append([]string{}, o.Props...)
	if safetyKinds[o.Kind] {
		has := false
		for _, p := range ps {
			if p == "C20" {
				has = true
			}
		}
		if !has {
			ps = append(ps, "C20")
		}
	}
	return ps
}

func hasProp(ps []string, p string) bool {
	for _, q := range ps {
		if q == p {
			return true
		}
	}
	return false
}

func (r *Report) finish() int {
	known := loadKnown(r.Verif)
	unclaimed := loadUnclaimed(r.Verif)
	props := r.Props
	if len(props) == 0 {
		set := map[string]bool{}
		for _, o := range r.Obls {
			for _, p := range oblProps(o) {
				set[p] = true
			}
		}
		props = sortedKeys(set)
	}
	exit := 0
	// engine / binding failures => UNDECIDED
	var undecided []string
	for _, wmsg := range r.CS.Warnings {
		if strings.Contains(wmsg, "IGNORED (syntax error)") {
			undecided = append(undecided, wmsg)
		}
	}
	if r.CrossDisagree > 0 {
		undecided = append(undecided, fmt.Sprintf("solver disagreement on %d obligations (tool failure)", r.CrossDisagree))
	}
	for _, res := range r.Results {
		if res.Unit != nil && res.Unit.exitCover == "unsat" && res.Unit.contract != nil && len(res.Unit.contract.Ensures) > 0 {
			undecided = append(undecided, "vacuity: no normal exit of "+res.Key+" is reachable under the assumed facts (contradictory trusted contract or precondition?)")
		}
		if res.Unit != nil && res.Unit.coverStatus == "unsat" {
			undecided = append(undecided, "vacuity: the entry assumptions (requires/type invariants) of "+res.Key+" are contradictory")
		}
		if res.Unit != nil {
			for _, v := range res.Unit.vacuous {
				undecided = append(undecided, "vacuity: "+v)
			}
		}
		if res.Err != "" {
			undecided = append(undecided, res.Err)
		}
		if res.Unit != nil && len(res.Unit.bindErrors) > 0 {
			// a contract clause that no longer binds to the code (a name it mentions is gone, a type changed): the
			// obligations it generated on the unchanged tree cannot be generated any more. Reported as a failed
			// obligation of the unit (kind "binding"), not silently dropped.
			var ps []string
			if res.Unit.contract != nil {
				ps = res.Unit.contract.Props
			}
			seenBind := map[string]bool{}
			for i, b := range res.Unit.bindErrors {
				if seenBind[b] {
					continue
				}
				seenBind[b] = true
				txt := firstLine(b)
				if len(txt) > 200 {
					txt = txt[:200]
				}
				r.Obls = append(r.Obls, &Obligation{Name: fmt.Sprintf("%s/binding[%s]#%d", res.Key, txt, i+1), Kind: "binding", Func: res.Key, In: res.Key,
					Props: ps, Text: b, Pos: "contract", Status: "error", Output: "contract clause does not bind to the code: " + b, unit: res.Unit})
			}
		}
	}
	for _, p := range props {
		code := r.finishProp(p, known, unclaimed, undecided)
		if code > exit {
			exit = code
		}
	}
	if len(undecided) > 0 {
		for _, s := range undecided {
			fmt.Println("UNDECIDED:", firstLine(s))
		}
		if exit == 0 {
			exit = 2
		}
	}
	fmt.Printf("govc: %d units, %d obligations, load %.1fs gen %.1fs solve %.1fs total %.1fs\n", len(r.Results), len(r.Obls),
		r.TLoad.Seconds(), r.TGen.Seconds(), r.TSolve.Seconds(), time.Since(r.T0).Seconds())
	return exit
}

func firstLine(s string) string {
	if i := strings.Index(s, "\n"); i >= 0 {
		return s[:i]
	}
	return s
}

func (r *Report) finishProp(prop string, known []knownFinding, unclaimed []unclaimedEntry, undecided []string) int {
	var mine []*Obligation
	for _, o := range r.Obls {
		if hasProp(oblProps(o), prop) {
			mine = append(mine, o)
		}
	}
	exit := 0
	nDis := 0
	var violations []*Obligation
	var knownPrinted []string
	var unclaimedList []map[string]string
	byKind := map[string]int{}
	bySolver := map[string]int{}
	var solveSum, solveMax float64
	claimed := 0
	// every open known finding of this property is reported on every run
	printedKnown := map[string]bool{}
	for _, k := range known {
		if k.Status == "open" && k.Property == prop {
			line := fmt.Sprintf("KNOWN-FINDING: property=%s %s: %s", prop, k.Obligation, k.Witness)
			if !printedKnown[line] {
				printedKnown[line] = true
				knownPrinted = append(knownPrinted, line)
				fmt.Println(line)
			}
		}
	}
	for _, o := range mine {
		isUnclaimed := false
		for _, e := range unclaimed {
			if globMatch(e.pattern, o.Name) {
				isUnclaimed = true
				unclaimedList = append(unclaimedList, map[string]string{"obligation": o.Name, "reason": e.reason, "status_now": o.Status})
				break
			}
		}
		if isUnclaimed {
			continue
		}
		isKnown := false
		for _, k := range known {
			if k.Status == "open" && k.Property == prop && globMatch(k.Obligation, o.Name) {
				isKnown = true
				break
			}
		}
		if isKnown {
			continue
		}
		claimed++
		byKind[o.Kind]++
		solveSum += o.TimeS
		if o.TimeS > solveMax {
			solveMax = o.TimeS
		}
		if o.Status == "discharged" {
			nDis++
			bySolver[o.Solver]++
		} else {
			violations = append(violations, o)
		}
	}
	for _, o := range violations {
		path, noInput := r.writeReplay(prop, o)
		suffix := ""
		if noInput {
			suffix = " no-failing-input-found"
		}
		fmt.Printf("VIOLATION property=%s replay=%s%s\n", prop, path, suffix)
		fmt.Printf("  obligation %s [%s] at %s: %s %s\n", o.Name, o.Status, o.Pos, trimLong(o.Output, 200), o.smtPath)
		exit = 1
	}
	// evidence
	slow := append([]*Obligation{}, mine...)
	sort.Slice(slow, func(i, j int) bool { return slow[i].TimeS > slow[j].TimeS })
	var slowest []map[string]interface{}
	for i := 0; i < len(slow) && i < 5; i++ {
		slowest = append(slowest, map[string]interface{}{"obligation": slow[i].Name, "seconds": round2(slow[i].TimeS), "solver": slow[i].Solver})
	}
	var samples []map[string]interface{}
	step := 1
	if len(mine) > 12 {
		step = len(mine) / 12
	}
	for i := (r.Seed % step); i < len(mine) && len(samples) < 12; i += step {
		o := mine[i]
		samples = append(samples, map[string]interface{}{"obligation": o.Name, "kind": o.Kind, "clause": o.Text, "at": o.Pos, "status": o.Status,
			"solver": o.Solver, "seconds": round2(o.TimeS), "smt_bytes": o.SMTSize})
	}
	funcs := map[string]string{}
	trusted := map[string]int{}
	libAssumed := map[string]int{}
	notes := map[string]int{}
	unknownCalls := map[string]int{}
	typeInv := map[string]int{}
	mathArith := []string{}
	partial := []string{}
	for _, res := range r.Results {
		u := res.Unit
		rel := false
		for _, o := range mine {
			if o.unit == u {
				rel = true
				break
			}
		}
		if !rel && !(u != nil && u.contract != nil && hasProp(u.contract.Props, prop)) {
			continue
		}
		status := "swept (default contract)"
		if u.contract != nil {
			status = "under contract"
		}
		if res.Skipped != "" {
			status = res.Skipped
		}
		if res.Err != "" {
			status = "engine failure"
		}
		if len(u.outsideSubset) > 0 {
			status += "; partly outside subset: " + strings.Join(uniq(u.outsideSubset), ", ")
		}
		funcs[res.Key] = status
		for k, v := range u.trustedUsed {
			trusted[k] += v
		}
		for k, v := range u.libAssumed {
			libAssumed[k] += v
		}
		for k, v := range u.notes {
			notes[k] += v
		}
		for k, v := range u.unknownCalls {
			unknownCalls[k] += v
		}
		for k, v := range u.typeInvUsed {
			typeInv[k] += v
		}
		if u.mathArith {
			mathArith = append(mathArith, res.Key)
		}
		for k := range u.inlined {
			if _, ok := funcs[k]; !ok {
				funcs[k] = "inlined into its callers (verified in context)"
			}
		}
	}
	_ = partial
	// entry points: functions whose preconditions no verified caller establishes (framework-called)
	called := map[string]bool{}
	for _, res := range r.Results {
		if res.Unit != nil {
			for k := range res.Unit.contractsUsed {
				called[k] = true
			}
		}
	}
	var entryAssumed []string
	for _, res := range r.Results {
		u := res.Unit
		if u == nil || u.contract == nil || len(u.contract.Requires) == 0 || called[res.Key] {
			continue
		}
		if _, rel := funcs[res.Key]; !rel {
			continue
		}
		var cl []string
		for _, c := range u.contract.Requires {
			cl = append(cl, c.Text)
		}
		entryAssumed = append(entryAssumed, fmt.Sprintf("entry-point precondition of %s assumed (no verified caller): %s", res.Key, strings.Join(cl, " && ")))
	}
	sort.Strings(entryAssumed)
	var assumptions []string
	assumptions = append(assumptions, entryAssumed...)
	assumptions = append(assumptions, "go/packages + go/ssa (x/tools v0.29.0) lower /repo's source faithfully; govc's translation and weakest-precondition generation are correct; solvers are sound")
	assumptions = append(assumptions, "sequential semantics inside one function activation; other threads act only at lock acquisitions (thread-modular)")
	assumptions = append(assumptions, "[]byte values are immutable data (functions storing into []byte elements are flagged outside the subset)")
	assumptions = append(assumptions, "byte-string order is a strict total order (trichotomy assumed); allocation never fails; termination is not proved")
	if len(mathArith) > 0 {
		assumptions = append(assumptions, "machine arithmetic treated as mathematical in: "+strings.Join(mathArith, ", "))
	}
	for _, k := range sortedKeys(trusted) {
		assumptions = append(assumptions, fmt.Sprintf("trusted contract %s (instantiated %d times)", k, trusted[k]))
	}
	if len(libAssumed) > 0 {
		assumptions = append(assumptions, fmt.Sprintf("%d library functions assumed total and without effect on modelled heaps: %s", len(libAssumed), strings.Join(sortedKeys(libAssumed), ", ")))
	}
	for _, k := range sortedKeys(unknownCalls) {
		assumptions = append(assumptions, fmt.Sprintf("call with unknown effects havocs all heaps: %s (%d sites)", k, unknownCalls[k]))
	}
	for _, k := range sortedKeys(typeInv) {
		assumptions = append(assumptions, fmt.Sprintf("type invariant assumed for wire-decoded messages: %s non-nil (%d loads)", k, typeInv[k]))
	}
	for _, k := range sortedKeys(notes) {
		assumptions = append(assumptions, "model note: "+k)
	}
	// vacuity guards of the units involved
	cover := map[string]int{}
	for _, res := range r.Results {
		if res.Unit != nil && funcs[res.Key] != "" && res.Unit.coverStatus != "" {
			cover[res.Unit.coverStatus]++
		}
	}
	var deadObls []string
	reach := 0
	for _, o := range mine {
		switch o.GuardCover {
		case "unsat":
			deadObls = append(deadObls, o.Name)
		case "sat":
			reach++
		}
	}
	if len(deadObls) > 40 {
		deadObls = append(deadObls[:40], fmt.Sprintf("... and %d more", len(deadObls)-40))
	}
	var mutants []map[string]interface{}
	killed := 0
	if r.Tier == "thorough" && !r.NoMutants {
		mutants, killed = r.runMutants(prop)
	}
	ev := map[string]interface{}{
		"property_id": prop,
		"tier":        r.Tier,
		"seed":        r.Seed,
		"level":       "proof",
		"wall_s":      round2(time.Since(r.T0).Seconds()),
		"violations":  len(violations),
		"assumptions": assumptions,
		"coverage": map[string]interface{}{
			"obligations":  claimed,
			"discharged":   nDis,
			"checker_cmd":  fmt.Sprintf("govc -props %s -tier %s -seed %d (z3-new 5.1.0 | z3 4.8.12 | cvc5 1.0 raced per obligation, timeout %ds)", prop, r.Tier, r.Seed, r.Timeout),
			"trusted_base": trustedBase(trusted),
			"by_kind":      byKind,
			"by_backend":   bySolver,
			"solver_time_s": map[string]interface{}{"sum": round2(solveSum), "max": round2(solveMax), "slowest": slowest},
			"phase_s":       map[string]interface{}{"load": round2(r.TLoad.Seconds()), "generate": round2(r.TGen.Seconds()), "solve": round2(r.TSolve.Seconds())},
			"samples":       samples,
			"functions":     funcs,
			"known_findings_printed": knownPrinted,
			"entry_assumption_cover_checks": cover,
			"obligations_with_satisfiable_path_condition": reach,
			"obligations_with_unsatisfiable_path_condition": deadObls,
			"cross_checked_by_second_solver": r.CrossChecked,
			"mutants":        mutants,
			"mutants_killed": killed,
			"mutants_total":  len(mutants),
			"unclaimed_obligations":  unclaimedList,
			"undecided":              undecided,
		},
	}
	if claimed == 0 {
		fmt.Printf("UNDECIDED: property %s has no obligations (vacuous check)\n", prop)
		exit = 2
	}
	if err := writeJSON(filepath.Join(r.EvidenceDir, prop+".json"), ev); err != nil {
		fmt.Println("cannot write evidence:", err)
	}
	fmt.Printf("property %s: %d/%d obligations discharged, %d violations, %d known findings, %d unclaimed\n", prop, nDis, claimed, len(violations), len(knownPrinted), len(unclaimedList))
	return exit
}

func trustedBase(trusted map[string]int) []string {
	tb := []string{"go/packages, go/types, go/ssa (golang.org/x/tools v0.29.0)", "govc (VC generator, /verif/govc)", "z3 4.8.12, z3-new 5.1.0, cvc5 1.0", "Go compiler/runtime vs. Go spec"}
	for _, k := range sortedKeys(trusted) {
		tb = append(tb, "assumed contract: "+k)
	}
	return tb
}

func uniq(xs []string) []string {
	seen := map[string]bool{}
	var out []string
	for _, x := range xs {
		if !seen[x] {
			seen[x] = true
			out = append(out, x)
		}
	}
	return out
}

func round2(f float64) float64 { return float64(int(f*100+0.5)) / 100 }

// writeReplay writes the replay file for a failed obligation and tries to reproduce it on the real code.
func (r *Report) writeReplay(prop string, o *Obligation) (string, bool) {
	h := sha1.Sum([]byte(o.Name))
	dir := filepath.Join(r.Verif, "replays", prop)
	if r.ReplayDir != "" {
		dir = filepath.Join(r.ReplayDir, prop)
	}
	os.MkdirAll(dir, 0o777)
	path := filepath.Join(dir, fmt.Sprintf("%x.json", h[:6]))
	rp := map[string]interface{}{
		"property":      prop,
		"obligation":    o.Name,
		"function":      o.Func,
		"kind":          o.Kind,
		"clause":        o.Text,
		"position":      o.Pos,
		"status":        o.Status,
		"solver":        o.Solver,
		"solver_output": o.Output,
		"tier":          r.Tier,
		"seed":          r.Seed,
	}
	noInput := true
	if rr := tryReplay(r, o); rr != nil {
		rp["replay"] = rr
		if rr.Outcome == "REPRODUCED" {
			noInput = false
		}
	}
	writeJSON(path, rp)
	return path, noInput
}

var _ = types.Typ
