package main

import (
	"go/ast"
	"go/token"
	"go/types"
	"strings"

	"golang.org/x/tools/go/ast/astutil"
	"golang.org/x/tools/go/packages"
	"golang.org/x/tools/go/ssa"
	"golang.org/x/tools/go/ssa/ssautil"
)

// Shared holds the immutable, precomputed information shared by all units.
type Shared struct {
	ld          *Loaded
	addrTaken   map[string]bool
	repoFuncs   []*ssa.Function
	fileOf      map[*token.File]*ast.File
	importNames map[string]map[string]*types.Package
	allTypes    []*types.Package
	mayLockMemo map[*ssa.Function]bool
	nonNilField map[string]bool // heap key -> loads are non-nil (typeinv)
	elemsNonNil map[string]bool // heap key of a slice field -> elements non-nil
	guards      map[string]*guardInfo // heap key of guarded field -> info
	mutableGlobal map[*ssa.Global]bool
	mapValsNonNil map[string]bool
	pureFuncField map[string]bool
	fieldOfClosure map[*ssa.Function]string // closure stored into a function-typed struct field -> "pkg.field:Type.field"
	repoKeys      map[string]bool // heap keys read or written by repo code (syntactically)
}

type guardInfo struct {
	foreign    bool       // the lock lives in another struct type (lockStruct): found through the root method's receiver
	lockStruct types.Type
	decl      GuardDecl
	structTyp types.Type
	fieldIdx  int
	lockIdx   int
	reads     map[string]bool
	writes    map[string]bool
}

func newShared(ld *Loaded, cs *ContractSet) *Shared {
	sh := &Shared{ld: ld, addrTaken: map[string]bool{}, fileOf: map[*token.File]*ast.File{}, importNames: map[string]map[string]*types.Package{},
		mayLockMemo: map[*ssa.Function]bool{}, nonNilField: map[string]bool{}, elemsNonNil: map[string]bool{}, guards: map[string]*guardInfo{}, mapValsNonNil: map[string]bool{}, pureFuncField: map[string]bool{}, fieldOfClosure: map[*ssa.Function]string{}, repoKeys: map[string]bool{}}
	seenT := map[*types.Package]bool{}
	packages.Visit(ld.Pkgs, nil, func(p *packages.Package) {
		if p.Types != nil && !seenT[p.Types] {
			seenT[p.Types] = true
			sh.allTypes = append(sh.allTypes, p.Types)
		}
	})
	for _, p := range ld.Pkgs {
		m := map[string]*types.Package{}
		for _, f := range p.Syntax {
			if tf := ld.Prog.Fset.File(f.Pos()); tf != nil {
				sh.fileOf[tf] = f
			}
			for _, imp := range f.Imports {
				path := strings.Trim(imp.Path.Value, `"`)
				ip := p.Imports[path]
				if ip == nil || ip.Types == nil {
					continue
				}
				name := ip.Types.Name()
				if imp.Name != nil {
					name = imp.Name.Name
				}
				m[name] = ip.Types
			}
		}
		sh.importNames[p.PkgPath] = m
	}
	// repo functions (members, methods, anonymous functions), excluding generated protobuf code
	all := ssautil.AllFunctions(ld.Prog)
	// AllFunctions is reachability-based: methods of types that are only converted to interfaces outside the loaded
	// packages (e.g. *filestore) would be missed. Add every function and method of the in-scope packages explicitly.
	var addFn func(f *ssa.Function)
	addFn = func(f *ssa.Function) {
		if f == nil || all[f] {
			return
		}
		all[f] = true
		for _, af := range f.AnonFuncs {
			addFn(af)
		}
	}
	for _, sp := range ld.SSA {
		if sp == nil {
			continue
		}
		for _, m := range sp.Members {
			switch x := m.(type) {
			case *ssa.Function:
				addFn(x)
			case *ssa.Type:
				for _, t := range []types.Type{x.Type(), types.NewPointer(x.Type())} {
					ms := ld.Prog.MethodSets.MethodSet(t)
					for i := 0; i < ms.Len(); i++ {
						if mf := ld.Prog.MethodValue(ms.At(i)); mf != nil && mf.Synthetic == "" {
							addFn(mf)
						}
					}
				}
			}
		}
	}
	for f := range all {
		for _, af := range f.AnonFuncs {
			if !all[af] {
				all[af] = true
			}
		}
	}
	w := &World{}
	tmp := newWorld(ld)
	_ = w
	for fn := range all {
		pp := fnPkgPath(fn)
		if strings.HasPrefix(pp, "github.com/fullstorydev/emulators/") {
			if fn.Synthetic == "" || strings.HasPrefix(fn.Synthetic, "") {
				sh.repoFuncs = append(sh.repoFuncs, fn)
			}
			for _, b := range fn.Blocks {
				for _, in := range b.Instrs {
					switch x := in.(type) {
					case *ssa.FieldAddr:
						if st, ok := derefType(x.X.Type()).Underlying().(*types.Struct); ok && !isComposite(st.Field(x.Field).Type()) {
							sh.repoKeys[tmp.fieldHeapKey(derefType(x.X.Type()), x.Field)] = true
							sh.repoKeys[tmp.typeHeapKey(st.Field(x.Field).Type())] = true
						}
					case *ssa.UnOp:
						if x.Op == token.MUL && !isComposite(x.Type()) {
							sh.repoKeys[tmp.typeHeapKey(x.Type())] = true
						}
					case *ssa.Store:
						if et := derefType(x.Addr.Type()); !isComposite(et) {
							sh.repoKeys[tmp.typeHeapKey(et)] = true
						}
					}
				}
			}
		}
		// address-taken leaf fields (anywhere in the program: library code may take addresses too)
		for _, b := range fn.Blocks {
			for _, in := range b.Instrs {
				fa, ok := in.(*ssa.FieldAddr)
				if !ok {
					continue
				}
				st, ok := derefType(fa.X.Type()).Underlying().(*types.Struct)
				if !ok {
					continue
				}
				if isComposite(st.Field(fa.Field).Type()) {
					continue
				}
				refs := fa.Referrers()
				if refs == nil {
					continue
				}
				for _, r := range *refs {
					switch x := r.(type) {
					case *ssa.UnOp:
						if x.Op == token.MUL {
							continue
						}
					case *ssa.Store:
						if x.Addr == fa && x.Val != fa {
							continue
						}
					case *ssa.DebugRef:
						continue
					}
					sh.addrTaken[tmp.fieldHeapKey(derefType(fa.X.Type()), fa.Field)] = true
				}
			}
		}
	}
	sh.computeMutableGlobals()
	return sh
}

func (w *World) exprTextAt(pos token.Pos) string {
	sh := w.sh
	tf := sh.ld.Prog.Fset.File(pos)
	if tf == nil {
		return ""
	}
	f := sh.fileOf[tf]
	if f == nil {
		return ""
	}
	path, _ := astutil.PathEnclosingInterval(f, pos, pos)
	for _, n := range path {
		switch x := n.(type) {
		case ast.Expr:
			// prefer the smallest expression that is not a bare identifier
			if _, isId := x.(*ast.Ident); isId {
				continue
			}
			es := types.ExprString(x)
			if strings.HasPrefix(es, "(ast:") || strings.HasPrefix(es, "(bad") {
				continue
			}
			return trimLong(es, 80)
		case *ast.AssignStmt, *ast.ExprStmt, *ast.ReturnStmt, *ast.RangeStmt, *ast.IncDecStmt, *ast.DeferStmt, *ast.GoStmt:
			return trimLong(nodeString(sh.ld.Prog.Fset, n), 80)
		}
	}
	return ""
}

func nodeString(fset *token.FileSet, n ast.Node) string {
	switch x := n.(type) {
	case *ast.AssignStmt:
		var l, r []string
		for _, e := range x.Lhs {
			l = append(l, types.ExprString(e))
		}
		for _, e := range x.Rhs {
			r = append(r, types.ExprString(e))
		}
		return strings.Join(l, ", ") + " " + x.Tok.String() + " " + strings.Join(r, ", ")
	case *ast.ExprStmt:
		return types.ExprString(x.X)
	case *ast.ReturnStmt:
		var r []string
		for _, e := range x.Results {
			r = append(r, types.ExprString(e))
		}
		return "return " + strings.Join(r, ", ")
	case *ast.RangeStmt:
		return "range " + types.ExprString(x.X)
	case *ast.IncDecStmt:
		return types.ExprString(x.X) + x.Tok.String()
	case *ast.DeferStmt:
		return "defer " + types.ExprString(x.Call)
	case *ast.GoStmt:
		return "go " + types.ExprString(x.Call)
	}
	return ""
}

// mayLock: fn (or a function it statically calls in the repo) performs sync mutex operations.
func (w *World) mayLock(fn *ssa.Function) bool {
	if v, ok := w.sh.mayLockMemo[fn]; ok {
		return v
	}
	return w.sh.mayLockRec(fn, map[*ssa.Function]bool{})
}

func (sh *Shared) mayLockRec(fn *ssa.Function, visiting map[*ssa.Function]bool) bool {
	if visiting[fn] {
		return false
	}
	visiting[fn] = true
	res := false
	for _, b := range fn.Blocks {
		for _, in := range b.Instrs {
			var cc *ssa.CallCommon
			switch x := in.(type) {
			case *ssa.Call:
				cc = x.Common()
			case *ssa.Defer:
				cc = x.Common()
			case *ssa.MakeClosure:
				if f, ok := x.Fn.(*ssa.Function); ok && sh.mayLockRec(f, visiting) {
					res = true
				}
				continue
			default:
				continue
			}
			if callee := cc.StaticCallee(); callee != nil {
				s := callee.String()
				if strings.HasPrefix(s, "(*sync.Mutex).") || strings.HasPrefix(s, "(*sync.RWMutex).") {
					res = true
				} else if strings.HasPrefix(fnPkgPath(callee), "github.com/fullstorydev/emulators/") && sh.mayLockRec(callee, visiting) {
					res = true
				}
			}
		}
	}
	delete(visiting, fn)
	return res
}
