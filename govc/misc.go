package main

import (
	"fmt"
	"go/token"
	"go/types"

	"golang.org/x/tools/go/ssa"
)

// ---- write recording for loop-effect discovery ----

type recordedWrite struct {
	fr   *Frame
	addr ssa.Value // may be nil
	key  string
	idx  Term
	contract bool
	whole bool // idx designates a whole object (append/copy/sort), not one cell
}

func (u *Unit) recordWrite(fr *Frame, addr ssa.Value, key string, idx Term) {
	if u.rec == nil {
		return
	}
	u.rec.writes = append(u.rec.writes, recordedWrite{fr: fr, addr: addr, key: key, idx: idx})
}

// recordWriteTerm: a write into the object of base (e.g. append/copy/sort on a slice held in argVal).
func (u *Unit) recordWriteTerm(fr *Frame, key string, base Term, argVal ssa.Value) {
	if u.rec == nil {
		return
	}
	u.rec.writes = append(u.rec.writes, recordedWrite{fr: fr, addr: argVal, key: key, idx: base, whole: true})
}

func (u *Unit) recordWriteContract(fr *Frame, key string) {
	if u.rec == nil {
		return
	}
	u.rec.writes = append(u.rec.writes, recordedWrite{fr: fr, key: key, contract: true})
}

// classify decides for each recorded write whether the written object is the same in every iteration.
func (rec *writeRecorder) classify(u *Unit, modKeys map[string]bool) {
	for _, wr := range rec.writes {
		if wr.contract || wr.addr == nil {
			rec.eff.variant[wr.key] = true
			continue
		}
		if !wr.whole && rec.invariantValue(u, wr.fr, wr.addr, modKeys, 0) && termIsOlderThan(wr.idx, rec.mark) {
			// the very cell is the same in every iteration
			dup := false
			for _, x := range rec.eff.writtenLoc[wr.key] {
				if x.S == wr.idx.S {
					dup = true
				}
			}
			if !dup {
				rec.eff.writtenLoc[wr.key] = append(rec.eff.writtenLoc[wr.key], wr.idx)
			}
			continue
		}
		if rec.invariantValue(u, wr.fr, rootOf(wr.addr), modKeys, 0) {
			o := Obj(wr.idx)
			if wr.idx.Sort == SSlice {
				o = Obj(SPtr(wr.idx))
			}
			dup := false
			for _, x := range rec.eff.written[wr.key] {
				if x.S == o.S {
					dup = true
				}
			}
			if !dup {
				rec.eff.written[wr.key] = append(rec.eff.written[wr.key], o)
			}
		} else {
			rec.eff.variant[wr.key] = true
		}
	}
}

// rootOf strips FieldAddr/IndexAddr to the base pointer/slice whose object is written.
func rootOf(v ssa.Value) ssa.Value {
	for {
		switch x := v.(type) {
		case *ssa.FieldAddr:
			v = x.X
		case *ssa.IndexAddr:
			v = x.X
		default:
			return v
		}
	}
}

// invariantValue: v (a value of frame fr) denotes the same object in every iteration of the loop being analysed.
func (rec *writeRecorder) invariantValue(u *Unit, fr *Frame, v ssa.Value, modKeys map[string]bool, depth int) bool {
	if depth > 12 {
		return false
	}
	switch x := v.(type) {
	case *ssa.Const, *ssa.Global, *ssa.Function:
		return true
	case *ssa.Parameter:
		if fr == rec.frame || fr.depth <= rec.frame.depth {
			return true
		}
		// parameter of an inlined callee: the corresponding argument in the caller
		if fr.parent == nil || fr.argVals == nil {
			return false
		}
		for i, p := range fr.fn.Params {
			if p == x && i < len(fr.argVals) {
				return rec.invariantValue(u, fr.parent, fr.argVals[i], modKeys, depth+1)
			}
		}
		return false
	case *ssa.FreeVar:
		// captured variable cell: defined outside the closure; invariant if the closure frame is the loop body
		if fr.parent == nil || fr.depth <= rec.frame.depth {
			return true
		}
		if mc, ok := fr.siteClosure(); ok {
			for i, fv := range fr.fn.FreeVars {
				if fv == x && i < len(mc.Bindings) {
					return rec.invariantValue(u, fr.closureDefFrame(), mc.Bindings[i], modKeys, depth+1)
				}
			}
		}
		return false
	}
	in, ok := v.(ssa.Instruction)
	if !ok {
		return false
	}
	// defined outside the loop region?
	if fr == rec.frame && rec.body != nil && !rec.body[in.Block()] {
		return true
	}
	if rec.isCallback && fr.depth <= rec.frame.depth {
		return true
	}
	if fr.depth < rec.frame.depth {
		return true
	}
	switch x := v.(type) {
	case *ssa.Phi, *ssa.Alloc, *ssa.Call, *ssa.MakeSlice, *ssa.MakeMap:
		return false
	case *ssa.UnOp:
		if x.Op == token.MUL {
			c := fr.staticCellKey(x.X)
			if c == "" || modKeys[c] {
				return false
			}
			return rec.invariantValue(u, fr, x.X, modKeys, depth+1)
		}
		return rec.invariantValue(u, fr, x.X, modKeys, depth+1)
	case *ssa.FieldAddr:
		return rec.invariantValue(u, fr, x.X, modKeys, depth+1)
	case *ssa.IndexAddr:
		return rec.invariantValue(u, fr, x.X, modKeys, depth+1) && rec.invariantValue(u, fr, x.Index, modKeys, depth+1)
	case *ssa.Slice:
		ok := rec.invariantValue(u, fr, x.X, modKeys, depth+1)
		for _, b := range []ssa.Value{x.Low, x.High, x.Max} {
			if b != nil {
				ok = ok && rec.invariantValue(u, fr, b, modKeys, depth+1)
			}
		}
		return ok
	case *ssa.BinOp:
		return rec.invariantValue(u, fr, x.X, modKeys, depth+1) && rec.invariantValue(u, fr, x.Y, modKeys, depth+1)
	case *ssa.Convert:
		return rec.invariantValue(u, fr, x.X, modKeys, depth+1)
	case *ssa.ChangeType:
		return rec.invariantValue(u, fr, x.X, modKeys, depth+1)
	case *ssa.MakeInterface:
		return rec.invariantValue(u, fr, x.X, modKeys, depth+1)
	case *ssa.Extract:
		return false
	}
	return false
}

func (fr *Frame) siteClosure() (*ssa.MakeClosure, bool) {
	if fr.mc != nil {
		return fr.mc, true
	}
	return nil, false
}

func (fr *Frame) closureDefFrame() *Frame {
	if fr.mcFrame != nil {
		return fr.mcFrame
	}
	return fr.parent
}

// staticCellKey: heap key a load through addr reads ("" if composite/unknown).
func (fr *Frame) staticCellKey(addr ssa.Value) string {
	et := derefType(addr.Type())
	if isComposite(et) {
		return ""
	}
	w := fr.u.w
	if fa, ok := addr.(*ssa.FieldAddr); ok {
		key := w.fieldHeapKey(derefType(fa.X.Type()), fa.Field)
		if !w.addrTaken[key] {
			return key
		}
	}
	return w.typeHeapKey(et)
}

// ---- lock discipline ----

// lockAcquired is called when a sync lock is taken: hook for the environment step of guarded state.
func (fr *Frame) lockAcquired(st *State, m Term, av []ssa.Value) {
	// Thread-modular environment step: everything guarded by this lock may have been changed by other threads
	// since we last held it. Guarded state is only reached through guarded fields, whose loads are re-done
	// after the acquisition; the abstract stores (Rows, Store) are external and modelled by trusted contracts
	// with an epoch ghost (see ghost "epoch").
	if e, ok := st.ghost["epoch"]; ok {
		_ = e
		st.ghost["epoch"] = fr.u.fresh("epoch", SInt)
		fr.u.assume(True, Gt(st.ghost["epoch"], e))
		// csStart(): the new critical section begins with the current allocation watermark
		fr.u.declareFun("epochStart", []string{"Int"}, SInt)
		fr.u.assume(True, Eq(mk(SInt, "epochStart", st.ghost["epoch"]), st.alloc))
	}
}

func (fr *Frame) guardFor(key string) *guardInfo {
	return fr.u.w.sh.guards[key]
}

// lockAddrOf computes the address of the lock field guarding a field of the struct at base.
func (fr *Frame) lockAddrOf(g *guardInfo, base Term) Term {
	if g.foreign {
		// the lock lives in another object: the receiver of the root method, if it has the lock's type
		root := fr
		for root.parent != nil {
			root = root.parent
		}
		if recv := root.fn.Signature.Recv(); recv != nil && len(root.fn.Params) > 0 {
			if types.Identical(derefType(recv.Type()), g.lockStruct) {
				st := g.lockStruct.Underlying().(*types.Struct)
				return LocAdd(root.regs[root.fn.Params[0]], IntLit(int64(fr.u.w.fieldOffset(st, g.lockIdx))))
			}
		}
		return Term{}
	}
	st := g.structTyp.Underlying().(*types.Struct)
	return LocAdd(base, IntLit(int64(fr.u.w.fieldOffset(st, g.lockIdx))))
}

func (fr *Frame) isFreshObject(base Term) Term {
	// objects allocated by this activation are not yet shared
	return Gt(Obj(base), fr.rootEntryAlloc())
}

func (fr *Frame) rootEntryAlloc() Term {
	f := fr
	for f.parent != nil {
		f = f.parent
	}
	return f.entry.alloc
}

func (fr *Frame) checkGuardedLoad(x *ssa.UnOp, c cell, st *State) {
	g := fr.guardFor(c.key)
	if g == nil {
		return
	}
	fa, ok := x.X.(*ssa.FieldAddr)
	if !ok {
		return
	}
	base := fr.val(fa.X)
	lock := fr.lockAddrOf(g, base)
	if lock.S == "" {
		fr.u.note("guarded_by %s.%s: the lock object is not in scope in %s (access not checked here)", g.decl.Type, g.decl.Field, fr.key)
		return
	}
	// remember where the loaded reference came from, for later operations on it (map ops, method calls)
	fr.u.guardedTerm[fr.regs[x].S] = guardedVal{g: g, lock: lock, base: base}
	fr.u.oblige(fr, "guard", x.Pos(), fmt.Sprintf("read of %s.%s needs %s", g.decl.Type, g.decl.Field, g.decl.Lock), st.pc,
		Or(Ge(Select(st.held, lock, SInt), IntLit(1)), fr.isFreshObject(base)), false)
}

func (fr *Frame) checkGuardedStore(x *ssa.Store, c cell, st *State) {
	g := fr.guardFor(c.key)
	if g == nil {
		return
	}
	fa, ok := x.Addr.(*ssa.FieldAddr)
	if !ok {
		return
	}
	base := fr.val(fa.X)
	lock := fr.lockAddrOf(g, base)
	if lock.S == "" {
		fr.u.note("guarded_by %s.%s: the lock object is not in scope in %s (access not checked here)", g.decl.Type, g.decl.Field, fr.key)
		return
	}
	fr.u.oblige(fr, "guard", x.Pos(), fmt.Sprintf("write of %s.%s needs %s (exclusive)", g.decl.Type, g.decl.Field, g.decl.Lock), st.pc,
		Or(Eq(Select(st.held, lock, SInt), IntLit(2)), fr.isFreshObject(base)), false)
}

type guardedVal struct {
	g    *guardInfo
	lock Term
	base Term
}

func (fr *Frame) checkGuardedMapOp(m ssa.Value, write bool, st *State, pos token.Pos) {
	gv, ok := fr.u.guardedTerm[fr.val(m).S]
	if !ok {
		return
	}
	need := Ge(Select(st.held, gv.lock, SInt), IntLit(1))
	what := "read"
	if write {
		need = Eq(Select(st.held, gv.lock, SInt), IntLit(2))
		what = "write"
	}
	fr.u.oblige(fr, "guard", pos, fmt.Sprintf("%s of map %s.%s needs %s", what, gv.g.decl.Type, gv.g.decl.Field, gv.g.decl.Lock), st.pc,
		Or(need, fr.isFreshObject(gv.base)), false)
}

func (fr *Frame) checkGuardedInvoke(c *ssa.CallCommon, st *State, pos token.Pos) {
	gv, ok := fr.u.guardedTerm[fr.val(c.Value).S]
	if !ok {
		return
	}
	name := c.Method.Name()
	var need Term
	switch {
	case gv.g.writes[name]:
		need = Eq(Select(st.held, gv.lock, SInt), IntLit(2))
	case gv.g.reads[name]:
		need = Ge(Select(st.held, gv.lock, SInt), IntLit(1))
	default:
		return
	}
	fr.u.oblige(fr, "guard", pos, fmt.Sprintf("%s.%s.%s needs %s", gv.g.decl.Type, gv.g.decl.Field, name, gv.g.decl.Lock), st.pc,
		Or(need, fr.isFreshObject(gv.base)), false)
}

// assumeFieldInv applies declared type invariants (typeinv) to a loaded value.
func (fr *Frame) assumeFieldInv(st *State, x *ssa.UnOp, c cell) {
	sh := fr.u.w.sh
	if sh.nonNilField[c.key] {
		v := fr.regs[x]
		switch v.Sort {
		case SLoc:
			fr.u.assume(True, Neq(v, NilLoc))
		case SIface:
			fr.u.assume(True, Neq(ITag(v), IntLit(0)))
		}
		fr.u.typeInvUsed[c.key]++
	}
	if sh.elemsNonNil[c.key] {
		v := fr.regs[x]
		if v.Sort == SSlice {
			if sl, ok := c.typ.Underlying().(*types.Slice); ok && !isComposite(sl.Elem()) {
				et := sl.Elem()
				vs := fr.u.w.sortOf(et)
				h := fr.u.heap(st, fr.u.w.typeHeapKey(et), vs)
				i := Sym("i!", SInt)
				el := Select(h, Elem(SPtr(v), i), vs)
				fr.u.assume(True, Forall([]Term{i}, Implies(And(Le(IntLit(0), i), Lt(i, SLen(v))), Neq(el, NilLoc)), []Term{el}))
				fr.u.typeInvUsed[c.key+"[*]"]++
			}
		}
	}
	if sh.mapValsNonNil[c.key] {
		fr.u.termOrigin[fr.regs[x].S] = c.key
	}
	if sh.pureFuncField[c.key] {
		fr.u.pureFnTerms[fr.regs[x].S] = c.key
	}
	if fa, ok := x.X.(*ssa.FieldAddr); ok {
		if nt, ok := derefType(fa.X.Type()).(*types.Named); ok && nt.Obj().Pkg() != nil {
			if stt, ok := nt.Underlying().(*types.Struct); ok {
				fk := nt.Obj().Pkg().Name() + ".field:" + nt.Obj().Name() + "." + stt.Field(fa.Field).Name()
				if fr.u.cs.ByKey[fk] != nil {
					if fr.u.fieldFnTerms == nil {
						fr.u.fieldFnTerms = map[string]string{}
					}
					fr.u.fieldFnTerms[fr.regs[x].S] = fk
				}
			}
		}
	}
	if g, ok := x.X.(*ssa.Global); ok && g.Pkg != nil {
		if k := "G:" + g.Pkg.Pkg.Path() + "." + g.Name(); sh.pureFuncField[k] {
			fr.u.pureFnTerms[fr.regs[x].S] = k
			fr.u.assume(True, Neq(fr.regs[x], NilLoc)) // initialised by the package and only replaced by tests
		}
	}
	// element of a slice loaded from an elems_nonnil field
	if ia, ok := x.X.(*ssa.IndexAddr); ok {
		if ld, ok := ia.X.(*ssa.UnOp); ok && ld.Op == token.MUL {
			if fa, ok := ld.X.(*ssa.FieldAddr); ok {
				key := fr.u.w.fieldHeapKey(derefType(fa.X.Type()), fa.Field)
				if sh.elemsNonNil[key] {
					v := fr.regs[x]
					if v.Sort == SLoc {
						fr.u.assume(True, Neq(v, NilLoc))
					}
					fr.u.typeInvUsed[key+"[]"]++
				}
			}
		}
	}
}

// ---- package-level variables ----

// globalRoot returns the global at the root of an address expression (FieldAddr/IndexAddr chain), if any.
func globalRoot(v ssa.Value) *ssa.Global {
	for {
		switch x := v.(type) {
		case *ssa.Global:
			return x
		case *ssa.FieldAddr:
			v = x.X
		case *ssa.IndexAddr:
			v = x.X
		default:
			return nil
		}
	}
}

// computeMutableGlobals: a repo global is immutable if it is only written by its package initialiser and its
// address never escapes.
func (sh *Shared) computeMutableGlobals() {
	sh.mutableGlobal = map[*ssa.Global]bool{}
	var onlyReads func(v ssa.Value, isInit bool) bool
	onlyReads = func(v ssa.Value, isInit bool) bool {
		refs := v.Referrers()
		if refs == nil {
			return true
		}
		for _, r := range *refs {
			switch x := r.(type) {
			case *ssa.UnOp:
				if x.Op != token.MUL {
					return false
				}
			case *ssa.DebugRef:
			case *ssa.FieldAddr:
				if !onlyReads(x, isInit) {
					return false
				}
			case *ssa.IndexAddr:
				if x.X != v || !onlyReads(x, isInit) {
					return false
				}
			case *ssa.Store:
				if x.Addr != v || !isInit {
					return false
				}
			default:
				return false
			}
		}
		return true
	}
	for _, fn := range sh.repoFuncs {
		isInit := fn.Name() == "init" && fn.Parent() == nil
		for _, b := range fn.Blocks {
			for _, in := range b.Instrs {
				for _, op := range in.Operands(nil) {
					g, ok := (*op).(*ssa.Global)
					if !ok {
						continue
					}
					// how is the global used by this instruction?
					switch x := in.(type) {
					case *ssa.UnOp:
						if x.Op == token.MUL {
							continue
						}
					case *ssa.DebugRef:
						continue
					case *ssa.Store:
						if x.Addr == g && isInit {
							continue
						}
					case *ssa.FieldAddr:
						if onlyReads(x, isInit) {
							continue
						}
					case *ssa.IndexAddr:
						if onlyReads(x, isInit) {
							continue
						}
					}
					sh.mutableGlobal[g] = true
				}
			}
		}
	}
}

// runPackageInit applies the stores of the package initialiser to immutable globals.
func (fr *Frame) runPackageInit(st *State) *State {
	u := fr.u
	f := fr.fn
	for f.Parent() != nil {
		f = f.Parent()
	}
	if f.Pkg == nil {
		return st
	}
	initFn := f.Pkg.Func("init")
	if initFn == nil || len(initFn.Blocks) < 2 {
		return st
	}
	// only straight-line initialisers are supported: blocks 1.. must form a chain
	child := &Frame{u: u, fn: initFn, key: funcKey(initFn), regs: map[ssa.Value]Term{}, tuples: map[ssa.Value][]Term{}, depth: fr.depth + 1, parent: fr,
		guardedVals: map[ssa.Value]guardedVal{}}
	child.entry = st
	snapObls := len(u.obls)
	savedNotes := u.notes
	u.notes = map[string]int{}
	u.inInit = true
	defer func() { u.inInit = false }()
	// package-level variables start out zero
	for _, m := range f.Pkg.Members {
		if g, ok := m.(*ssa.Global); ok && !u.w.sh.mutableGlobal[g] && g.Name() != "init$guard" {
			child.zeroInit(st, derefType(g.Type()), u.w.globalLoc(g))
		}
	}
	b := initFn.Blocks[1]
	for b != nil {
		for _, in := range b.Instrs {
			switch x := in.(type) {
			case *ssa.Jump, *ssa.If, *ssa.Return:
				continue
			case *ssa.Store:
				if g := globalRoot(x.Addr); g != nil {
					if g.Name() == "init$guard" || u.w.sh.mutableGlobal[g] {
						continue
					}
				}
			case *ssa.Call:
				if callee := x.Common().StaticCallee(); callee != nil && callee.Name() == "init" {
					continue
				}
			}
			st2 := child.execInstr(in, st)
			if st2 == nil {
				break
			}
			st = st2
		}
		if len(b.Succs) == 1 && b.Succs[0].Index > b.Index && len(b.Succs[0].Preds) == 1 {
			b = b.Succs[0]
		} else {
			b = nil
		}
	}
	u.obls = u.obls[:snapObls]
	u.notes = savedNotes
	return st
}
