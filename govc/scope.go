package main

// lookupContract finds the contract of a callee: a contract scoped to the package of the unit under
// verification ("scope PKG" in a spec file) takes precedence over an unscoped one.
func (u *Unit) lookupContract(key string) *Contract {
	if u.root != nil && u.root.Pkg != nil {
		if ct := u.cs.ByKey[u.root.Pkg.Pkg.Name()+"::"+key]; ct != nil {
			return ct
		}
	}
	return u.cs.ByKey[key]
}
