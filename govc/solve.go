package main

import (
	"bytes"
	"context"
	"fmt"
	"os"
	"os/exec"
	"path/filepath"
	"strings"
	"sync"
	"time"
)

// strAxioms returns the axioms of the byte-string theory needed by the features used.
func strAxioms(features map[string]bool, quant bool) []string {
	var ax []string
	// length is non-negative: instantiated by pattern
	ax = append(ax, "(forall ((s Str)) (! (>= (str.len s) 0) :pattern ((str.len s))))")
	if features["strcat"] {
		ax = append(ax, "(forall ((a Str) (b Str)) (! (= (str.len (str.cat a b)) (+ (str.len a) (str.len b))) :pattern ((str.cat a b))))")
		ax = append(ax, "(forall ((a Str) (b Str) (i Int)) (! (= (str.at (str.cat a b) i) (ite (< i (str.len a)) (str.at a i) (str.at b (- i (str.len a))))) :pattern ((str.at (str.cat a b) i))))")
	}
	if features["strsub"] {
		ax = append(ax, "(forall ((s Str) (lo Int) (hi Int) (i Int)) (! (=> (and (<= 0 i) (< i (- hi lo))) (= (str.at (str.sub s lo hi) i) (str.at s (+ lo i)))) :pattern ((str.at (str.sub s lo hi) i))))")
		ax = append(ax, "(forall ((s Str) (lo Int) (hi Int)) (! (=> (and (<= 0 lo) (<= lo hi) (<= hi (str.len s))) (= (str.len (str.sub s lo hi)) (- hi lo))) :pattern ((str.sub s lo hi))))")
		ax = append(ax, "(forall ((s Str)) (! (= (str.sub s 0 (str.len s)) s) :pattern ((str.sub s 0 (str.len s)))))")
	}
	if features["strlt"] {
		// strict total order (trichotomy is assumed, see DESIGN 3.3)
		ax = append(ax, "(forall ((a Str)) (! (not (str.lt a a)) :pattern ((str.lt a a))))")
		ax = append(ax, "(forall ((a Str) (b Str)) (! (=> (str.lt a b) (not (str.lt b a))) :pattern ((str.lt a b))))")
		ax = append(ax, "(forall ((a Str) (b Str) (c Str)) (! (=> (and (str.lt a b) (str.lt b c)) (str.lt a c)) :pattern ((str.lt a b) (str.lt b c))))")
		ax = append(ax, "(forall ((a Str) (b Str)) (! (or (str.lt a b) (= a b) (str.lt b a)) :pattern ((str.lt a b))))")
		ax = append(ax, "(forall ((a Str) (b Str)) (! (or (str.lt a b) (= a b) (str.lt b a)) :pattern ((str.lt b a))))")
		// the empty string is the least element
		ax = append(ax, "(forall ((a Str) (b Str)) (! (=> (and (= (str.len a) 0) (> (str.len b) 0)) (str.lt a b)) :pattern ((str.lt a b))))")
		ax = append(ax, "(forall ((a Str) (b Str)) (! (=> (= (str.len b) 0) (not (str.lt a b))) :pattern ((str.lt a b))))")
		ax = append(ax, "(forall ((a Str) (b Str)) (! (=> (and (= (str.len a) 0) (= (str.len b) 0)) (= a b)) :pattern ((str.len a) (str.len b))))")
	}
	if features["strprefix"] {
		ax = append(ax, "(forall ((p Str) (s Str)) (! (=> (str.prefix p s) (<= (str.len p) (str.len s))) :pattern ((str.prefix p s))))")
		ax = append(ax, "(forall ((s Str)) (! (str.prefix s s) :pattern ((str.prefix s s))))")
		ax = append(ax, "(forall ((p Str) (s Str)) (! (=> (= (str.len p) 0) (str.prefix p s)) :pattern ((str.prefix p s))))")
	}
	return ax
}

// smtFile renders the SMT-LIB query of one obligation.
func (o *Obligation) smtFile(timeoutMs int) string {
	u := o.unit
	var sb strings.Builder
	sb.WriteString("(set-option :produce-models true)\n")
	if u.usesQuant || len(u.features) > 0 {
		sb.WriteString("(set-logic ALL)\n")
	} else {
		sb.WriteString("(set-logic ALL)\n")
	}
	sb.WriteString(u.w.preludeFixed())
	for _, d := range u.w.dtDecls {
		sb.WriteString(d)
		sb.WriteByte('\n')
	}
	sb.WriteString(u.w.strLitDecls())
	sb.WriteString("(define-fun nilbytes () Bytes (bytes true " + u.w.strLit("").S + "))\n")
	for _, c := range u.cmds[:o.NCmds] {
		sb.WriteString(c)
		sb.WriteByte('\n')
	}
	for _, f := range u.w.strLitFacts(u.usesStrAt()) {
		sb.WriteString("(assert " + f + ")\n")
	}
	for _, a := range strAxioms(u.features, u.usesQuant) {
		sb.WriteString("(assert " + a + ")\n")
	}
	for _, f := range u.facts[:o.NFacts] {
		sb.WriteString("(assert " + f + ")\n")
	}
	if o.Cover {
		sb.WriteString("(assert " + o.Guard.S + ")\n")
	} else {
		sb.WriteString("(assert " + And(o.Guard, Not(o.Goal)).S + ")\n")
	}
	sb.WriteString("(check-sat)\n")
	return sb.String()
}

type solverSpec struct {
	name string
	args func(file string, timeoutS int) []string
}

var solvers = []solverSpec{
	{"z3-new", func(f string, t int) []string { return []string{"z3-new", fmt.Sprintf("-T:%d", t), "smt.random_seed=" + seedStr, f} }},
	{"z3", func(f string, t int) []string { return []string{"z3", fmt.Sprintf("-T:%d", t), "smt.random_seed=" + seedStr, f} }},
	{"cvc5", func(f string, t int) []string {
		return []string{"cvc5", "--incremental", fmt.Sprintf("--tlimit=%d", t*1000), "--seed=" + seedStr, f}
	}},
}

var seedStr = "0"

type solveResult struct {
	status string // unsat, sat, unknown, timeout, error
	solver string
	out    string
	secs   float64
	model  string
}

func runSolver(ctx context.Context, sp solverSpec, file string, timeoutS int) solveResult {
	args := sp.args(file, timeoutS)
	cctx, cancel := context.WithTimeout(ctx, time.Duration(timeoutS+2)*time.Second)
	defer cancel()
	t0 := time.Now()
	cmd := exec.CommandContext(cctx, args[0], args[1:]...)
	var out bytes.Buffer
	cmd.Stdout = &out
	cmd.Stderr = &out
	_ = cmd.Run()
	secs := time.Since(t0).Seconds()
	s := out.String()
	first := strings.TrimSpace(strings.SplitN(s, "\n", 2)[0])
	res := solveResult{solver: sp.name, out: s, secs: secs}
	switch first {
	case "unsat":
		res.status = "unsat"
	case "sat":
		res.status = "sat"
	case "unknown":
		res.status = "unknown"
	case "timeout":
		res.status = "timeout"
	default:
		if cctx.Err() != nil || ctx.Err() != nil {
			res.status = "timeout"
		} else if strings.Contains(s, "timeout") || strings.Contains(s, "interrupted") {
			res.status = "timeout"
		} else {
			res.status = "error"
		}
	}
	return res
}

// discharge races the solvers on one obligation; the first definite answer (unsat/sat) wins.
func discharge(o *Obligation, dir string, timeoutS int, which []solverSpec) {
	file := filepath.Join(dir, fmt.Sprintf("o%06d.smt2", o.id))
	txt := o.smtFile(timeoutS * 1000)
	o.SMTSize = len(txt)
	if len(txt) > 6<<20 {
		o.Status = "error"
		o.Output = fmt.Sprintf("VC too large (%d bytes)", len(txt))
		return
	}
	if err := os.WriteFile(file, []byte(txt), 0o666); err != nil {
		o.Status = "error"
		o.Output = err.Error()
		return
	}
	o.smtPath = file
	ctx, cancel := context.WithCancel(context.Background())
	defer cancel()
	results := make(chan solveResult, len(which))
	var wg sync.WaitGroup
	for _, sp := range which {
		sp := sp
		wg.Add(1)
		go func() {
			defer wg.Done()
			results <- runSolver(ctx, sp, file, timeoutS)
		}()
	}
	go func() { wg.Wait(); close(results) }()
	var all []solveResult
	var final *solveResult
	for r := range results {
		all = append(all, r)
		if r.status == "unsat" || r.status == "sat" {
			rr := r
			final = &rr
			cancel()
			break
		}
	}
	if final == nil {
		// no definite answer
		best := all[0]
		for _, r := range all {
			if r.status == "unknown" {
				best = r
			}
		}
		final = &best
	}
	o.Solver = final.solver
	o.TimeS = final.secs
	o.Output = trimOutput(final.out)
	want := "unsat"
	if o.Cover {
		want = "sat"
	}
	switch {
	case final.status == want:
		o.Status = "discharged"
	case final.status == "sat" || final.status == "unsat":
		o.Status = "violated"
	default:
		o.Status = final.status
		var sb strings.Builder
		for _, r := range all {
			fmt.Fprintf(&sb, "[%s: %s %.1fs] ", r.solver, r.status, r.secs)
		}
		o.Output = sb.String() + o.Output
	}
}

func trimOutput(s string) string {
	if len(s) > 4000 {
		return s[:4000] + "…"
	}
	return s
}

func (u *Unit) usesStrAt() bool {
	if u.strAtChecked {
		return u.strAt
	}
	u.strAtChecked = true
	for _, c := range u.cmds {
		if strings.Contains(c, "str.at") {
			u.strAt = true
			return true
		}
	}
	for _, f := range u.facts {
		if strings.Contains(f, "str.at") {
			u.strAt = true
			return true
		}
	}
	for _, o := range u.obls {
		if strings.Contains(o.Goal.S, "str.at") {
			u.strAt = true
			return true
		}
	}
	return false
}
