package main

import (
	"bytes"
	"context"
	"fmt"
	"os"
	"os/exec"
	"path/filepath"
	"regexp"
	"sort"
	"strconv"
	"strings"
	"sync"
	"time"
)

// strAxioms returns the axioms of the byte-string theory needed by the features used.
func strAxioms(features map[string]bool, quant bool) []string {
	var ax []string
	// length is non-negative: instantiated by pattern
	ax = append(ax, "(forall ((s Str)) (! (>= (s.len s) 0) :pattern ((s.len s))))")
	ax = append(ax, "(forall ((c Int)) (! (and (= (s.len (s.byte c)) 1) (= (s.at (s.byte c) 0) c)) :pattern ((s.byte c))))")
	if features["strcat"] {
		ax = append(ax, "(forall ((a Str) (b Str)) (! (= (s.len (s.cat a b)) (+ (s.len a) (s.len b))) :pattern ((s.cat a b))))")
		ax = append(ax, "(forall ((a Str) (b Str) (i Int)) (! (= (s.at (s.cat a b) i) (ite (< i (s.len a)) (s.at a i) (s.at b (- i (s.len a))))) :pattern ((s.at (s.cat a b) i))))")
	}
	if features["strcat"] && features["strmonoid"] {
		// monoid laws: only for units that accumulate a string-valued ghost (ghost code at call sites): in other units
		// the associativity instances made single queries of z3's incremental session run for minutes (proved from extensionality: theory.bytestrings/lemma[cat-...])
		ax = append(ax, "(forall ((a Str) (b Str)) (! (=> (= (s.len b) 0) (= (s.cat a b) a)) :pattern ((s.cat a b))))")
		ax = append(ax, "(forall ((a Str) (b Str)) (! (=> (= (s.len a) 0) (= (s.cat a b) b)) :pattern ((s.cat a b))))")
		ax = append(ax, "(forall ((a Str) (b Str) (c Str)) (! (= (s.cat (s.cat a b) c) (s.cat a (s.cat b c))) :pattern ((s.cat (s.cat a b) c))))")
	}
	if features["strsub"] {
		ax = append(ax, "(forall ((s Str) (lo Int) (hi Int) (i Int)) (! (=> (and (<= 0 i) (< i (- hi lo))) (= (s.at (s.sub s lo hi) i) (s.at s (+ lo i)))) :pattern ((s.at (s.sub s lo hi) i))))")
		ax = append(ax, "(forall ((s Str) (lo Int) (hi Int)) (! (=> (and (<= 0 lo) (<= lo hi) (<= hi (s.len s))) (= (s.len (s.sub s lo hi)) (- hi lo))) :pattern ((s.sub s lo hi))))")
		ax = append(ax, "(forall ((s Str)) (! (= (s.sub s 0 (s.len s)) s) :pattern ((s.sub s 0 (s.len s)))))")
	}
	if features["strlt"] {
		// strict total order (trichotomy is assumed, see DESIGN 3.3)
		ax = append(ax, "(forall ((a Str)) (! (not (s.lt a a)) :pattern ((s.lt a a))))")
		ax = append(ax, "(forall ((a Str) (b Str)) (! (=> (s.lt a b) (not (s.lt b a))) :pattern ((s.lt a b))))")
		ax = append(ax, "(forall ((a Str) (b Str) (c Str)) (! (=> (and (s.lt a b) (s.lt b c)) (s.lt a c)) :pattern ((s.lt a b) (s.lt b c))))")
		ax = append(ax, "(forall ((a Str) (b Str)) (! (or (s.lt a b) (= a b) (s.lt b a)) :pattern ((s.lt a b))))")
		ax = append(ax, "(forall ((a Str) (b Str)) (! (or (s.lt a b) (= a b) (s.lt b a)) :pattern ((s.lt b a))))")
		// the empty string is the least element
		ax = append(ax, "(forall ((a Str) (b Str)) (! (=> (and (= (s.len a) 0) (> (s.len b) 0)) (s.lt a b)) :pattern ((s.lt a b))))")
		ax = append(ax, "(forall ((a Str) (b Str)) (! (=> (= (s.len b) 0) (not (s.lt a b))) :pattern ((s.lt a b))))")
		ax = append(ax, "(forall ((a Str) (b Str)) (! (=> (and (= (s.len a) 0) (= (s.len b) 0)) (= a b)) :pattern ((s.len a) (s.len b))))")
	}
	if features["strlt"] && features["strcat"] {
		// k+[0] is the immediate successor of k (proved from the witness definition: theory.bytestrings/lemma[successor...])
		ax = append(ax, "(forall ((k Str) (x Str)) (! (= (s.lt k x) (not (s.lt x (s.cat k (s.byte 0))))) :pattern ((s.lt x (s.cat k (s.byte 0))))))")
		ax = append(ax, "(forall ((k Str) (x Str)) (! (= (s.lt k x) (not (s.lt x (s.cat k (s.byte 0))))) :pattern ((s.cat k (s.byte 0)) (s.lt k x))))")
		ax = append(ax, "(forall ((k Str)) (! (s.lt k (s.cat k (s.byte 0))) :pattern ((s.cat k (s.byte 0)))))")
	}
	if features["strlt"] && features["strprefix"] {
		ax = append(ax, "(forall ((p Str) (s Str)) (! (=> (s.prefix p s) (not (s.lt s p))) :pattern ((s.prefix p s))))")
	}
	if features["strprefix"] {
		ax = append(ax, "(forall ((p Str) (s Str)) (! (=> (s.prefix p s) (<= (s.len p) (s.len s))) :pattern ((s.prefix p s))))")
		ax = append(ax, "(forall ((s Str)) (! (s.prefix s s) :pattern ((s.prefix s s))))")
		ax = append(ax, "(forall ((p Str) (s Str)) (! (=> (= (s.len p) 0) (s.prefix p s)) :pattern ((s.prefix p s))))")
	}
	return ax
}

func (u *Unit) smtHeader(ncmds int) string {
	return u.smtHeaderWith(u.cmds[:ncmds])
}

func (u *Unit) smtHeaderWith(cmds []string) string {
	var sb strings.Builder
	sb.WriteString("(set-option :produce-models true)\n")
	sb.WriteString("(set-logic ALL)\n")
	sb.WriteString(u.w.preludeFixed())
	for _, d := range u.w.dtDecls {
		sb.WriteString(d)
		sb.WriteByte('\n')
	}
	sb.WriteString(u.w.strLitDecls())
	sb.WriteString("(define-fun nilbytes () Bytes (bytes true " + u.w.strLit("").S + "))\n")
	for _, c := range cmds {
		sb.WriteString(c)
		sb.WriteByte('\n')
	}
	for _, f := range u.w.strLitFacts(u.usesStrAt()) {
		sb.WriteString("(assert " + f + ")\n")
	}
	for _, a := range strAxioms(u.features, u.usesQuant) {
		sb.WriteString("(assert " + a + ")\n")
	}
	// user axioms (assumed lemmas): only those whose theory symbols the unit uses
	for _, a := range u.axiomFacts {
		need := true
		for sym, feat := range map[string]string{"s.lt": "strlt", "s.prefix": "strprefix", "s.cat": "strcat", "s.sub": "strsub"} {
			if strings.Contains(a, "("+sym+" ") && !u.features[feat] {
				need = false
			}
		}
		if need {
			sb.WriteString("(assert " + a + ")\n")
		}
	}
	return sb.String()
}

// smtFile renders the SMT-LIB query of one obligation.
func (o *Obligation) smtFile(timeoutMs int) string {
	if o.rawSMT != "" {
		return o.rawSMT
	}
	u := o.unit
	var sb strings.Builder
	extra := o.Guard.S + " " + o.Goal.S
	for _, a := range u.axiomFacts {
		extra += " " + a
	}
	sb.WriteString(u.smtHeaderWith(u.prunedCmds(o.NCmds, o.NFacts, extra)))
	for _, f := range u.facts[:o.NFacts] {
		sb.WriteString("(assert " + f + ")\n")
	}
	if o.Cover {
		sb.WriteString("(assert " + o.Guard.S + ")\n")
	} else {
		sb.WriteString("(assert " + And(o.Guard, Not(o.Goal)).S + ")\n")
	}
	sb.WriteString("(check-sat)\n")
	return sb.String()
}

// slicedSMT renders the query with only the relevant facts (see relevantFacts); "" if that is the whole set.
func (o *Obligation) slicedSMT(depth int, tol float64) string {
	if o.rawSMT != "" || o.Cover {
		return ""
	}
	u := o.unit
	goal := o.Guard.S + " " + o.Goal.S
	idx := u.relevantFacts(o.NCmds, o.NFacts, goal, depth, tol)
	if len(idx) >= o.NFacts {
		return ""
	}
	extra := goal
	for _, a := range u.axiomFacts {
		extra += " " + a
	}
	for _, i := range idx {
		extra += " " + u.facts[i]
	}
	var sb strings.Builder
	sb.WriteString(u.smtHeaderWith(u.prunedCmds(o.NCmds, 0, extra)))
	for _, i := range idx {
		sb.WriteString("(assert " + u.facts[i] + ")\n")
	}
	sb.WriteString("(assert " + And(o.Guard, Not(o.Goal)).S + ")\n")
	sb.WriteString("(check-sat)\n")
	return sb.String()
}

type solverSpec struct {
	name string
	args func(file string, timeoutS int) []string
}

// Budgets are resource limits (z3 rlimit, cvc5 --rlimit), not wall-clock time: whether an obligation is discharged
// does not depend on how loaded the machine is. `-timeout T` gives each solver about the work it does in T seconds
// on an idle core (calibrated on this machine: z3-new ~2.5M units/s, z3 4.8.12 ~5M/s, cvc5 ~0.25M/s); the wall-clock
// limit is only a safety net (hardWall).
func hardWall(t int) int { return 8*t + 20 }

var solvers = []solverSpec{
	{"z3-new", func(f string, t int) []string {
		return []string{"z3-new", fmt.Sprintf("-T:%d", hardWall(t)), fmt.Sprintf("rlimit=%d", t*2500000), "smt.random_seed=" + seedStr, f}
	}},
	{"z3", func(f string, t int) []string {
		return []string{"z3", fmt.Sprintf("-T:%d", hardWall(t)), fmt.Sprintf("rlimit=%d", t*5000000), "smt.random_seed=" + seedStr, f}
	}},
	{"cvc5", func(f string, t int) []string {
		return []string{"cvc5", "--incremental", fmt.Sprintf("--tlimit=%d", hardWall(t)*1000), fmt.Sprintf("--rlimit=%d", t*250000), "--seed=" + seedStr, f}
	}},
}

var seedStr = "0"
var altSeed = "0"

type solveResult struct {
	status string // unsat, sat, unknown, timeout, error
	solver string
	out    string
	secs   float64
	model  string
}

func runSolver(ctx context.Context, sp solverSpec, file string, timeoutS int) solveResult {
	args := sp.args(file, timeoutS)
	cctx, cancel := context.WithTimeout(ctx, time.Duration(hardWall(timeoutS)+5)*time.Second)
	defer cancel()
	t0 := time.Now()
	cmd := exec.CommandContext(cctx, args[0], args[1:]...)
	var out bytes.Buffer
	cmd.Stdout = &out
	cmd.Stderr = &out
	_ = cmd.Run()
	secs := time.Since(t0).Seconds()
	s := out.String()
	first := ""
	for _, l := range strings.Split(s, "\n") {
		l = strings.TrimSpace(l)
		if l == "" || strings.HasPrefix(l, "WARNING") || strings.HasPrefix(l, "(warning") {
			continue
		}
		first = l
		break
	}
	res := solveResult{solver: sp.name, out: s, secs: secs}
	switch first {
	case "unsat":
		res.status = "unsat"
	case "sat":
		res.status = "sat"
	case "unknown":
		res.status = "unknown"
	case "timeout":
		res.status = "timeout"
	default:
		if cctx.Err() != nil || ctx.Err() != nil {
			res.status = "timeout"
		} else if strings.Contains(s, "timeout") || strings.Contains(s, "interrupted") {
			res.status = "timeout"
		} else {
			res.status = "error"
		}
	}
	return res
}

// discharge races the solvers on one obligation; the first definite answer (unsat/sat) wins.
func discharge(o *Obligation, dir string, timeoutS int, which []solverSpec) {
	file := filepath.Join(dir, fmt.Sprintf("o%06d.smt2", o.id))
	txt := o.smtFile(timeoutS * 1000)
	o.SMTSize = len(txt)
	if len(txt) > 6<<20 {
		o.Status = "error"
		o.Output = fmt.Sprintf("VC too large (%d bytes)", len(txt))
		return
	}
	if err := os.WriteFile(file, []byte(txt), 0o666); err != nil {
		o.Status = "error"
		o.Output = err.Error()
		return
	}
	o.smtPath = file
	ctx, cancel := context.WithCancel(context.Background())
	defer cancel()
	results := make(chan solveResult, len(which))
	var wg sync.WaitGroup
	for _, sp := range which {
		sp := sp
		wg.Add(1)
		go func() {
			defer wg.Done()
			results <- runSolver(ctx, sp, file, timeoutS)
		}()
	}
	go func() { wg.Wait(); close(results) }()
	var all []solveResult
	var final *solveResult
	for r := range results {
		all = append(all, r)
		if r.status == "unsat" || r.status == "sat" {
			rr := r
			final = &rr
			cancel()
			break
		}
	}
	if final == nil && !o.Cover && !o.noSplit {
		// hypothesis slicing: the same goal under the relevant subset of the facts (sound for unsat); two radii
		for k, cfg := range []struct {
			depth int
			tol   float64
		}{{2, 1.2}, {4, 2.0}} {
			txt2 := o.slicedSMT(cfg.depth, cfg.tol)
			if txt2 == "" {
				continue
			}
			f2 := filepath.Join(dir, fmt.Sprintf("o%06d.slice%d.smt2", o.id, k))
			if os.WriteFile(f2, []byte(txt2), 0o666) != nil {
				continue
			}
			ctx2, cancel2 := context.WithCancel(context.Background())
			res2 := make(chan solveResult, len(which))
			var wg2 sync.WaitGroup
			for _, sp := range which {
				sp := sp
				wg2.Add(1)
				go func() {
					defer wg2.Done()
					res2 <- runSolver(ctx2, sp, f2, (timeoutS+1)/2)
				}()
			}
			go func() { wg2.Wait(); close(res2) }()
			for r := range res2 {
				if r.status == "unsat" {
					rr := r
					rr.solver = fmt.Sprintf("slice%d:%s", k, r.solver)
					final = &rr
					cancel2()
					break
				}
			}
			cancel2()
			if final != nil {
				break
			}
		}
	}
	if final == nil && !o.Cover && !o.noSplit {
		// case split on the "append fits in place" conditions of the most recent appends: the merged
		// ite(fits, old array, fresh array) base defeats quantifier instantiation, each case is easy
		if r := splitRetry(o, txt, dir, (timeoutS+2)/3, which); r != nil {
			final = r
		}
	}
	if final == nil && !o.Cover && !o.noSplit && altSeed != "0" && altSeed != "" {
		// one more attempt with the run's seed
		for _, sp := range which[:1] {
			base := sp
			alt := solverSpec{name: base.name, args: func(f string, t int) []string {
				as := base.args(f, t)
				for i, a := range as {
					if a == "smt.random_seed="+seedStr {
						as[i] = "smt.random_seed=" + altSeed
					} else if a == "--seed="+seedStr {
						as[i] = "--seed=" + altSeed
					}
				}
				return as
			}}
			r := runSolver(context.Background(), alt, file, timeoutS)
			if r.status == "unsat" {
				r.solver = "seed" + altSeed + ":" + r.solver
				final = &r
			}
		}
	}
	if final == nil {
		// no definite answer
		best := all[0]
		for _, r := range all {
			if r.status == "unknown" {
				best = r
			}
		}
		final = &best
	}
	o.Solver = final.solver
	o.TimeS = final.secs
	o.Output = trimOutput(final.out)
	want := "unsat"
	if o.Cover {
		want = "sat"
	}
	switch {
	case final.status == want:
		o.Status = "discharged"
	case final.status == "sat" || final.status == "unsat":
		o.Status = "violated"
	default:
		o.Status = final.status
		var sb strings.Builder
		for _, r := range all {
			fmt.Fprintf(&sb, "[%s: %s %.1fs] ", r.solver, r.status, r.secs)
		}
		o.Output = sb.String() + o.Output
	}
}

func trimOutput(s string) string {
	if len(s) > 4000 {
		return s[:4000] + "…"
	}
	return s
}

func (u *Unit) usesStrAt() bool {
	if u.strAtChecked {
		return u.strAt
	}
	u.strAtChecked = true
	for _, c := range u.cmds {
		if strings.Contains(c, "s.at") {
			u.strAt = true
			return true
		}
	}
	for _, f := range u.facts {
		if strings.Contains(f, "s.at") {
			u.strAt = true
			return true
		}
	}
	for _, o := range u.obls {
		if strings.Contains(o.Goal.S, "s.at") {
			u.strAt = true
			return true
		}
	}
	return false
}

// batchDischarge runs all obligations of one unit through a single incremental z3-new process.
// Only "unsat" answers are used; everything else is left for the per-obligation race.
func batchDischarge(u *Unit, obls []*Obligation, dir string, perQueryMs int) {
	if len(obls) == 0 {
		return
	}
	var sb strings.Builder
	sb.WriteString(u.smtHeader(len(u.cmds)))
	// per-query budget of the incremental session: a resource limit as well (about perQueryMs of work on an idle core)
	fmt.Fprintf(&sb, "(set-option :rlimit %d)\n", perQueryMs*2500)
	nf := 0
	// vacuity guard: the entry assumptions (type invariants + requires) must not be contradictory
	for nf < u.nFactsEntry && nf < len(u.facts) {
		sb.WriteString("(assert " + u.facts[nf] + ")\n")
		nf++
	}
	sb.WriteString("(push 1)\n(check-sat)\n(pop 1)\n")
	for _, o := range obls {
		for nf < o.NFacts {
			sb.WriteString("(assert " + u.facts[nf] + ")\n")
			nf++
		}
		sb.WriteString("(push 1)\n")
		if o.Cover {
			sb.WriteString("(assert " + o.Guard.S + ")\n")
		} else {
			sb.WriteString("(assert " + And(o.Guard, Not(o.Goal)).S + ")\n")
		}
		sb.WriteString("(check-sat)\n(pop 1)\n")
	}
	// vacuity guard 2: with all facts (incl. assumed callee postconditions) some normal exit must be reachable
	hasExitCover := false
	if len(u.exitPCs) > 0 {
		for nf < len(u.facts) {
			sb.WriteString("(assert " + u.facts[nf] + ")\n")
			nf++
		}
		sb.WriteString("(push 1)\n(assert " + Or(u.exitPCs...).S + ")\n(check-sat)\n(pop 1)\n")
		hasExitCover = true
	}
	// vacuity guard 3: an iteration of every loop / an invocation of every callback can be completed. Only an "unsat"
	// answer means something (the body is dead under the assumed facts); budget: a tenth of an obligation's
	nProbes := 0
	if len(u.probes) > 0 {
		for nf < len(u.facts) {
			sb.WriteString("(assert " + u.facts[nf] + ")\n")
			nf++
		}
		fmt.Fprintf(&sb, "(set-option :rlimit %d)\n", perQueryMs*250)
		for _, p := range u.probes {
			sb.WriteString("(push 1)\n(assert " + p.pc.S + ")\n(check-sat)\n(pop 1)\n")
		}
		nProbes = len(u.probes)
	}
	file := filepath.Join(dir, fmt.Sprintf("u%06d.smt2", obls[0].id))
	if err := os.WriteFile(file, []byte(sb.String()), 0o666); err != nil {
		return
	}
	// wall-clock safety net for the whole session (a per-query (set-option :timeout) cancels the incremental session of
	// z3 5.1: "push canceled"); what is not answered in time is left to the per-obligation race
	total := 4*(perQueryMs/1000)*len(obls) + 60
	if total > 900 {
		total = 900
	}
	ctx, cancel := context.WithTimeout(context.Background(), time.Duration(total)*time.Second)
	defer cancel()
	t0 := time.Now()
	cmd := exec.CommandContext(ctx, "z3-new", "smt.random_seed="+seedStr, file)
	var out bytes.Buffer
	cmd.Stdout = &out
	cmd.Stderr = &out
	_ = cmd.Run()
	secs := time.Since(t0).Seconds()
	var answers []string
parse:
	for _, l := range strings.Split(out.String(), "\n") {
		l = strings.TrimSpace(l)
		switch l {
		case "sat", "unsat", "unknown", "timeout":
			answers = append(answers, l)
		default:
			if strings.HasPrefix(l, "(error") {
				// an error (malformed query, resource limit hit inside an assert: "push canceled") poisons the rest of the
				// session: the answers given before it are in step with the queries and are kept, nothing after it is used
				u.note("incremental session of %s abandoned after %d answers: %s", u.rootKey, len(answers), l)
				break parse
			}
		}
	}
	if len(answers) < len(obls)+1 {
		u.note("incremental session of %s ended after %d of %d answers (%.0fs, ctx err %v)", u.rootKey, len(answers), len(obls)+1, secs, ctx.Err())
	}
	if len(answers) > 0 {
		u.coverStatus = answers[0]
		answers = answers[1:]
	}
	nExit := 0
	if hasExitCover {
		nExit = 1
	}
	if len(answers) == len(obls)+nExit+nProbes && ctx.Err() == nil {
		if hasExitCover {
			u.exitCover = answers[len(obls)]
		}
		for i, a := range answers[len(obls)+nExit:] {
			if a == "unsat" {
				u.vacuous = append(u.vacuous, u.probes[i].what)
			}
		}
	}
	for i, o := range obls {
		if i >= len(answers) {
			break
		}
		want := "unsat"
		if o.Cover {
			want = "sat"
		}
		if answers[i] == want {
			o.Status = "discharged"
			o.Solver = "z3-new(incremental)"
			o.TimeS = secs / float64(len(obls))
			o.SMTSize = sb.Len() / len(obls)
		}
	}
}

// coverPass (thorough tier): for every obligation of the unit, is its path condition satisfiable together with the
// facts visible to it? An unsatisfiable guard means the obligation holds vacuously (dead code, or an over-strong
// assumption/invariant upstream). The result is informational and listed in the evidence.
func coverPass(u *Unit, obls []*Obligation, dir string) {
	if len(obls) == 0 {
		return
	}
	var sb strings.Builder
	sb.WriteString(u.smtHeader(len(u.cmds)))
	sb.WriteString("(set-option :timeout 1500)\n")
	nf := 0
	seen := map[string]int{}
	var order []*Obligation
	for _, o := range obls {
		if o.rawSMT != "" {
			continue
		}
		for nf < o.NFacts {
			sb.WriteString("(assert " + u.facts[nf] + ")\n")
			nf++
		}
		if _, dup := seen[o.Guard.S]; dup {
			continue
		}
		seen[o.Guard.S] = len(order)
		order = append(order, o)
		sb.WriteString("(push 1)\n(assert " + o.Guard.S + ")\n(check-sat)\n(pop 1)\n")
	}
	file := filepath.Join(dir, fmt.Sprintf("c%06d.smt2", obls[0].id))
	if err := os.WriteFile(file, []byte(sb.String()), 0o666); err != nil {
		return
	}
	ctx, cancel := context.WithTimeout(context.Background(), time.Duration(2*len(order)+20)*time.Second)
	defer cancel()
	cmd := exec.CommandContext(ctx, "z3-new", "smt.random_seed="+seedStr, file)
	var out bytes.Buffer
	cmd.Stdout = &out
	cmd.Stderr = &out
	_ = cmd.Run()
	var answers []string
	for _, l := range strings.Split(out.String(), "\n") {
		l = strings.TrimSpace(l)
		switch l {
		case "sat", "unsat", "unknown", "timeout":
			answers = append(answers, l)
		}
	}
	for _, o := range obls {
		idx, ok := seen[o.Guard.S]
		if !ok || idx >= len(answers) {
			continue
		}
		o.GuardCover = answers[idx]
	}
}

var appfitsRe = regexp.MustCompile(`appfits![0-9]+`)
var orPcRe = regexp.MustCompile(`(?m)^\(define-fun (pc![0-9]+) \(\) Bool \(or (.*)\)\)$`)

// splitTop splits an s-expression sequence "a (b c) d" into its top-level items.
func splitTop(s string) []string {
	var out []string
	depth, start := 0, -1
	inBar := false
	for i := 0; i < len(s); i++ {
		c := s[i]
		if c == '|' {
			inBar = !inBar
		}
		if inBar {
			if start < 0 {
				start = i
			}
			continue
		}
		switch {
		case c == '(':
			if depth == 0 && start < 0 {
				start = i
			}
			depth++
		case c == ')':
			depth--
			if depth == 0 && start >= 0 {
				out = append(out, s[start:i+1])
				start = -1
			}
		case c == ' ' || c == '\n' || c == '\t':
			if depth == 0 && start >= 0 {
				out = append(out, s[start:i])
				start = -1
			}
		default:
			if start < 0 {
				start = i
			}
		}
	}
	if start >= 0 {
		out = append(out, s[start:])
	}
	return out
}

// splitRetry re-runs an undecided query by cases: first one case per disjunct of the most recent control-flow merge
// (the path condition `pc := (or p1 .. pn)` defined last before the obligation), and inside a case that is still
// undecided one case per truth assignment of the two most recent append-fits conditions. The case splits are
// exhaustive, so all cases unsat = unsat; a sat case is a model of the original query.
func splitRetry(o *Obligation, txt string, dir string, timeoutS int, which []solverSpec) *solveResult {
	idx := strings.LastIndex(txt, "(check-sat)")
	if idx < 0 {
		return nil
	}
	budget := float64(6 * timeoutS)
	var cases []string
	if ms := orPcRe.FindAllStringSubmatch(txt[:idx], -1); len(ms) > 0 {
		last := ms[len(ms)-1]
		ds := splitTop(last[2])
		if len(ds) >= 2 && len(ds) <= 10 {
			for _, d := range ds {
				cases = append(cases, "(assert "+d+")\n")
			}
			// the merge may not be on the path of this obligation at all: cover the complement too
			cases = append(cases, "(assert (not "+last[1]+"))\n")
		}
	}
	seen := map[string]bool{}
	var names []string
	for _, m := range appfitsRe.FindAllString(txt[:idx], -1) {
		if !seen[m] {
			seen[m] = true
			names = append(names, m)
		}
	}
	sort.Slice(names, func(i, j int) bool {
		a, _ := strconv.Atoi(names[i][len("appfits!"):])
		b, _ := strconv.Atoi(names[j][len("appfits!"):])
		return a > b
	})
	if len(names) > 2 {
		names = names[:2]
	}
	if len(cases) == 0 && len(names) == 0 {
		return nil
	}
	if len(cases) == 0 {
		cases = []string{""}
	}
	total := 0.0
	n := 0
	run := func(extra string) (string, *Obligation) {
		n++
		sub := &Obligation{id: o.id, unit: o.unit, rawSMT: txt[:idx] + extra + txt[idx:], noSplit: true}
		subdir := filepath.Join(dir, fmt.Sprintf("split%d", n))
		_ = os.MkdirAll(subdir, 0o777)
		discharge(sub, subdir, timeoutS, which)
		total += sub.TimeS
		if sub.Status != "discharged" && sub.Status != "violated" {
			total += float64(timeoutS)
		}
		return sub.Status, sub
	}
	for _, c := range cases {
		if total > budget {
			return nil
		}
		if c != "" {
			stt, sub := run(c)
			if stt == "discharged" {
				continue
			}
			if stt == "violated" {
				return &solveResult{status: "sat", solver: "split:" + sub.Solver, secs: total, out: sub.Output}
			}
		}
		if len(names) == 0 {
			return nil
		}
		for mask := 0; mask < 1<<len(names); mask++ {
			if total > budget {
				return nil
			}
			extra := c
			for i, nm := range names {
				if mask&(1<<i) != 0 {
					extra += "(assert " + nm + ")\n"
				} else {
					extra += "(assert (not " + nm + "))\n"
				}
			}
			stt, sub := run(extra)
			if stt == "discharged" {
				continue
			}
			if stt == "violated" {
				return &solveResult{status: "sat", solver: "split:" + sub.Solver, secs: total, out: sub.Output}
			}
			return nil
		}
	}
	return &solveResult{status: "unsat", solver: "split:z3-new/z3/cvc5", secs: total, out: fmt.Sprintf("unsat by exhaustive case split (%d cases)", n)}
}
