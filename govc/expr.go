package main

import (
	"fmt"
	"strings"
	"unicode"
)

// Expr is the AST of the contract expression language.
type Expr struct {
	Op   string // "id","int","str","bool","nil","call","field","index","slice","un","bin","forall","exists","old","ite"
	Name string // identifier, operator, field name
	Args []*Expr
	Vars []Binder // quantifiers
	Src  string
}

type Binder struct {
	Name string
	Type string // "" = int
}

func (e *Expr) String() string {
	if e == nil {
		return "<nil>"
	}
	switch e.Op {
	case "id", "int", "bool", "nil":
		return e.Name
	case "str":
		return fmt.Sprintf("%q", e.Name)
	case "call":
		var as []string
		for _, a := range e.Args {
			as = append(as, a.String())
		}
		return e.Name + "(" + strings.Join(as, ", ") + ")"
	case "field":
		return e.Args[0].String() + "." + e.Name
	case "index":
		return e.Args[0].String() + "[" + e.Args[1].String() + "]"
	case "slice":
		lo, hi := "", ""
		if e.Args[1] != nil {
			lo = e.Args[1].String()
		}
		if e.Args[2] != nil {
			hi = e.Args[2].String()
		}
		return e.Args[0].String() + "[" + lo + ":" + hi + "]"
	case "un":
		return e.Name + e.Args[0].String()
	case "bin":
		return "(" + e.Args[0].String() + " " + e.Name + " " + e.Args[1].String() + ")"
	case "forall", "exists":
		var vs []string
		for _, v := range e.Vars {
			if v.Type != "" {
				vs = append(vs, v.Name+" "+v.Type)
			} else {
				vs = append(vs, v.Name)
			}
		}
		return "(" + e.Op + " " + strings.Join(vs, ", ") + " :: " + e.Args[0].String() + ")"
	case "old":
		return "old(" + e.Args[0].String() + ")"
	case "ite":
		return "(" + e.Args[0].String() + " ? " + e.Args[1].String() + " : " + e.Args[2].String() + ")"
	}
	return "?" + e.Op
}

type etoken struct {
	kind string // "id","int","str","op","eof"
	text string
	pos  int
}

func lexExpr(s string) ([]etoken, error) {
	var toks []etoken
	i := 0
	for i < len(s) {
		c := s[i]
		switch {
		case c == ' ' || c == '\t' || c == '\n':
			i++
		case unicode.IsLetter(rune(c)) || c == '_':
			j := i
			for j < len(s) && (unicode.IsLetter(rune(s[j])) || unicode.IsDigit(rune(s[j])) || s[j] == '_' || s[j] == '$') {
				j++
			}
			toks = append(toks, etoken{"id", s[i:j], i})
			i = j
		case c >= '0' && c <= '9':
			j := i
			for j < len(s) && (s[j] >= '0' && s[j] <= '9' || s[j] == '_') {
				j++
			}
			toks = append(toks, etoken{"int", strings.ReplaceAll(s[i:j], "_", ""), i})
			i = j
		case c == '"':
			j := i + 1
			var sb strings.Builder
			for j < len(s) && s[j] != '"' {
				if s[j] == '\\' && j+1 < len(s) {
					j++
					switch s[j] {
					case 'n':
						sb.WriteByte('\n')
					case 't':
						sb.WriteByte('\t')
					case 'x':
						if j+2 < len(s) {
							var v int
							fmt.Sscanf(s[j+1:j+3], "%02x", &v)
							sb.WriteByte(byte(v))
							j += 2
						}
					default:
						sb.WriteByte(s[j])
					}
				} else {
					sb.WriteByte(s[j])
				}
				j++
			}
			if j >= len(s) {
				return nil, fmt.Errorf("unterminated string at %d", i)
			}
			toks = append(toks, etoken{"str", sb.String(), i})
			i = j + 1
		default:
			ops := []string{"<==>", "==>", "::", "==", "!=", "<=", ">=", "&&", "||", "<", ">", "+", "-", "*", "/", "%", "!", ".", "[", "]", "(", ")", ",", ":", "?"}
			found := false
			for _, op := range ops {
				if strings.HasPrefix(s[i:], op) {
					toks = append(toks, etoken{"op", op, i})
					i += len(op)
					found = true
					break
				}
			}
			if !found {
				return nil, fmt.Errorf("unexpected character %q at %d in %q", c, i, s)
			}
		}
	}
	toks = append(toks, etoken{"eof", "", len(s)})
	return toks, nil
}

type exprParser struct {
	toks []etoken
	p    int
	src  string
}

func parseExpr(s string) (*Expr, error) {
	toks, err := lexExpr(s)
	if err != nil {
		return nil, err
	}
	ps := &exprParser{toks: toks, src: s}
	e, err := ps.parseIff()
	if err != nil {
		return nil, fmt.Errorf("%v in %q", err, s)
	}
	if ps.peek().kind != "eof" {
		return nil, fmt.Errorf("unexpected %q at %d in %q", ps.peek().text, ps.peek().pos, s)
	}
	e.Src = strings.TrimSpace(s)
	return e, nil
}

func (ps *exprParser) peek() etoken { return ps.toks[ps.p] }
func (ps *exprParser) next() etoken  { t := ps.toks[ps.p]; ps.p++; return t }
func (ps *exprParser) isOp(s string) bool {
	t := ps.peek()
	return t.kind == "op" && t.text == s
}
func (ps *exprParser) expectOp(s string) error {
	if !ps.isOp(s) {
		return fmt.Errorf("expected %q, got %q at %d", s, ps.peek().text, ps.peek().pos)
	}
	ps.p++
	return nil
}

func (ps *exprParser) parseIff() (*Expr, error) {
	l, err := ps.parseImp()
	if err != nil {
		return nil, err
	}
	for ps.isOp("<==>") {
		ps.next()
		r, err := ps.parseImp()
		if err != nil {
			return nil, err
		}
		l = &Expr{Op: "bin", Name: "<==>", Args: []*Expr{l, r}}
	}
	return l, nil
}

func (ps *exprParser) parseImp() (*Expr, error) {
	l, err := ps.parseTernary()
	if err != nil {
		return nil, err
	}
	if ps.isOp("==>") {
		ps.next()
		r, err := ps.parseImp()
		if err != nil {
			return nil, err
		}
		return &Expr{Op: "bin", Name: "==>", Args: []*Expr{l, r}}, nil
	}
	return l, nil
}

func (ps *exprParser) parseTernary() (*Expr, error) {
	c, err := ps.parseOr()
	if err != nil {
		return nil, err
	}
	if ps.isOp("?") {
		ps.next()
		a, err := ps.parseTernary()
		if err != nil {
			return nil, err
		}
		if err := ps.expectOp(":"); err != nil {
			return nil, err
		}
		b, err := ps.parseTernary()
		if err != nil {
			return nil, err
		}
		return &Expr{Op: "ite", Args: []*Expr{c, a, b}}, nil
	}
	return c, nil
}

func (ps *exprParser) parseOr() (*Expr, error) {
	l, err := ps.parseAnd()
	if err != nil {
		return nil, err
	}
	for ps.isOp("||") {
		ps.next()
		r, err := ps.parseAnd()
		if err != nil {
			return nil, err
		}
		l = &Expr{Op: "bin", Name: "||", Args: []*Expr{l, r}}
	}
	return l, nil
}

func (ps *exprParser) parseAnd() (*Expr, error) {
	l, err := ps.parseCmp()
	if err != nil {
		return nil, err
	}
	for ps.isOp("&&") {
		ps.next()
		r, err := ps.parseCmp()
		if err != nil {
			return nil, err
		}
		l = &Expr{Op: "bin", Name: "&&", Args: []*Expr{l, r}}
	}
	return l, nil
}

func (ps *exprParser) parseCmp() (*Expr, error) {
	l, err := ps.parseAddE()
	if err != nil {
		return nil, err
	}
	// chained comparisons: a <= b < c  ==>  a <= b && b < c
	var res *Expr
	for {
		t := ps.peek()
		if t.kind == "op" && (t.text == "==" || t.text == "!=" || t.text == "<" || t.text == "<=" || t.text == ">" || t.text == ">=") {
			ps.next()
			r, err := ps.parseAddE()
			if err != nil {
				return nil, err
			}
			c := &Expr{Op: "bin", Name: t.text, Args: []*Expr{l, r}}
			if res == nil {
				res = c
			} else {
				res = &Expr{Op: "bin", Name: "&&", Args: []*Expr{res, c}}
			}
			l = r
			continue
		}
		if t.kind == "id" && t.text == "in" {
			ps.next()
			r, err := ps.parseAddE()
			if err != nil {
				return nil, err
			}
			c := &Expr{Op: "bin", Name: "in", Args: []*Expr{l, r}}
			if res == nil {
				res = c
			} else {
				res = &Expr{Op: "bin", Name: "&&", Args: []*Expr{res, c}}
			}
			l = r
			continue
		}
		break
	}
	if res != nil {
		return res, nil
	}
	return l, nil
}

func (ps *exprParser) parseAddE() (*Expr, error) {
	l, err := ps.parseMulE()
	if err != nil {
		return nil, err
	}
	for ps.isOp("+") || ps.isOp("-") {
		op := ps.next().text
		r, err := ps.parseMulE()
		if err != nil {
			return nil, err
		}
		l = &Expr{Op: "bin", Name: op, Args: []*Expr{l, r}}
	}
	return l, nil
}

func (ps *exprParser) parseMulE() (*Expr, error) {
	l, err := ps.parseUnary()
	if err != nil {
		return nil, err
	}
	for ps.isOp("*") || ps.isOp("/") || ps.isOp("%") {
		op := ps.next().text
		r, err := ps.parseUnary()
		if err != nil {
			return nil, err
		}
		l = &Expr{Op: "bin", Name: op, Args: []*Expr{l, r}}
	}
	return l, nil
}

func (ps *exprParser) parseUnary() (*Expr, error) {
	if ps.isOp("!") || ps.isOp("-") {
		op := ps.next().text
		a, err := ps.parseUnary()
		if err != nil {
			return nil, err
		}
		return &Expr{Op: "un", Name: op, Args: []*Expr{a}}, nil
	}
	return ps.parsePostfix()
}

func (ps *exprParser) parsePostfix() (*Expr, error) {
	e, err := ps.parsePrimary()
	if err != nil {
		return nil, err
	}
	for {
		switch {
		case ps.isOp("."):
			ps.next()
			t := ps.next()
			if t.kind != "id" {
				return nil, fmt.Errorf("expected field name at %d", t.pos)
			}
			e = &Expr{Op: "field", Name: t.text, Args: []*Expr{e}}
		case ps.isOp("["):
			ps.next()
			var lo, hi *Expr
			isSlice := false
			if !ps.isOp(":") {
				lo, err = ps.parseIff()
				if err != nil {
					return nil, err
				}
			}
			if ps.isOp(":") {
				isSlice = true
				ps.next()
				if !ps.isOp("]") {
					hi, err = ps.parseIff()
					if err != nil {
						return nil, err
					}
				}
			}
			if err := ps.expectOp("]"); err != nil {
				return nil, err
			}
			if isSlice {
				e = &Expr{Op: "slice", Args: []*Expr{e, lo, hi}}
			} else {
				e = &Expr{Op: "index", Args: []*Expr{e, lo}}
			}
		default:
			return e, nil
		}
	}
}

// parseTypeText consumes tokens that form a Go type expression in a call argument (e.g. *btpb.Mutation_SetCell_, []byte).
func (ps *exprParser) parsePrimary() (*Expr, error) {
	t := ps.next()
	switch t.kind {
	case "int":
		return &Expr{Op: "int", Name: t.text}, nil
	case "str":
		return &Expr{Op: "str", Name: t.text}, nil
	case "id":
		switch t.text {
		case "true", "false":
			return &Expr{Op: "bool", Name: t.text}, nil
		case "nil":
			return &Expr{Op: "nil", Name: "nil"}, nil
		case "forall", "exists":
			var vars []Binder
			for {
				v := ps.next()
				if v.kind != "id" {
					return nil, fmt.Errorf("expected bound variable at %d", v.pos)
				}
				b := Binder{Name: v.text}
				// optional type: identifier(s) up to , or ::
				var ty []string
				for !(ps.isOp(",") || ps.isOp("::")) && ps.peek().kind != "eof" {
					ty = append(ty, ps.next().text)
				}
				b.Type = strings.Join(ty, "")
				vars = append(vars, b)
				if ps.isOp(",") {
					ps.next()
					continue
				}
				break
			}
			if err := ps.expectOp("::"); err != nil {
				return nil, err
			}
			body, err := ps.parseIff()
			if err != nil {
				return nil, err
			}
			return &Expr{Op: t.text, Vars: vars, Args: []*Expr{body}}, nil
		}
		if ps.isOp("(") {
			ps.next()
			name := t.text
			var args []*Expr
			if name == "typeis" || name == "as" || name == "zero" {
				// first arg (if typeis/as) is an expression, the last is a type
				if name != "zero" {
					a, err := ps.parseIff()
					if err != nil {
						return nil, err
					}
					args = append(args, a)
					if err := ps.expectOp(","); err != nil {
						return nil, err
					}
				}
				var ty strings.Builder
				depth := 0
				for {
					pt := ps.peek()
					if pt.kind == "eof" {
						return nil, fmt.Errorf("unterminated type in %s()", name)
					}
					if pt.kind == "op" && pt.text == ")" && depth == 0 {
						break
					}
					if pt.kind == "op" && pt.text == "(" {
						depth++
					}
					if pt.kind == "op" && pt.text == ")" {
						depth--
					}
					ty.WriteString(pt.text)
					ps.next()
				}
				ps.next()
				args = append(args, &Expr{Op: "str", Name: ty.String()})
				return &Expr{Op: "call", Name: name, Args: args}, nil
			}
			for !ps.isOp(")") {
				a, err := ps.parseIff()
				if err != nil {
					return nil, err
				}
				args = append(args, a)
				if ps.isOp(",") {
					ps.next()
				} else if !ps.isOp(")") {
					return nil, fmt.Errorf("expected , or ) at %d", ps.peek().pos)
				}
			}
			ps.next()
			if name == "old" && len(args) == 1 {
				return &Expr{Op: "old", Args: args}, nil
			}
			return &Expr{Op: "call", Name: name, Args: args}, nil
		}
		return &Expr{Op: "id", Name: t.text}, nil
	case "op":
		if t.text == "(" {
			e, err := ps.parseIff()
			if err != nil {
				return nil, err
			}
			if err := ps.expectOp(")"); err != nil {
				return nil, err
			}
			return e, nil
		}
	}
	return nil, fmt.Errorf("unexpected %q at %d", t.text, t.pos)
}

// splitConj splits a top-level conjunction into its conjuncts (each becomes its own obligation).
func splitConj(e *Expr) []*Expr {
	if e.Op == "bin" && e.Name == "&&" {
		return append(splitConj(e.Args[0]), splitConj(e.Args[1])...)
	}
	if e.Op == "call" && e.Name == "frameOld" && len(e.Args) > 1 {
		var out []*Expr
		for _, a := range e.Args {
			out = append(out, &Expr{Op: "call", Name: "frameOld", Args: []*Expr{a}})
		}
		return out
	}
	return []*Expr{e}
}
