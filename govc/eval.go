package main

import (
	"regexp"
	"fmt"
	"go/types"
	"strings"
)

// tval is a typed value of the contract language. If addr is set, t is the address of a value of type ty.
type tval struct {
	t    Term
	ty   types.Type
	addr bool
	nilLit bool
}

type evalCtx struct {
	fr    *Frame
	cur   *State
	old   *State
	names map[string]tval
	pkg   *types.Package
	inOld bool
	oldFromRoot bool // old(...) refers to the entry of the unit's root function (clauses of the root contract evaluated inside a closure)
	nq    *int
	bound map[string]bool
}

var (
	tInt  = types.Typ[types.Int]
	tBool = types.Typ[types.Bool]
	tStr  = types.Typ[types.String]
)

func (fr *Frame) newEvalCtx(cur, old *State, names map[string]tval) *evalCtx {
	pkg := fr.pkgTypes()
	n := 0
	return &evalCtx{fr: fr, cur: cur, old: old, names: names, pkg: pkg, nq: &n}
}

func (fr *Frame) pkgTypes() *types.Package {
	f := fr.fn
	for f != nil && f.Parent() != nil {
		f = f.Parent()
	}
	if f != nil && f.Pkg != nil {
		return f.Pkg.Pkg
	}
	return nil
}

// evalBool evaluates a contract clause in the frame's own naming environment (params, results, locals).
func (fr *Frame) evalBool(e *Expr, cur, old *State) (Term, error) {
	c := fr.newEvalCtx(cur, old, fr.baseNames(cur))
	v, err := c.eval(e)
	if err != nil {
		return Term{}, err
	}
	if v.t.Sort != SBool {
		return Term{}, fmt.Errorf("expression %s is not boolean", e)
	}
	return v.t, nil
}

func (fr *Frame) evalInt(e *Expr, cur, old *State) (Term, error) {
	c := fr.newEvalCtx(cur, old, fr.baseNames(cur))
	v, err := c.eval(e)
	if err != nil {
		return Term{}, err
	}
	return v.t, nil
}

// baseNames: parameters (entry values), logical variables, and the local environment of the state.
func (fr *Frame) baseNames(cur *State) map[string]tval {
	names := map[string]tval{}
	if cur != nil {
		for k, e := range cur.env {
			names[k] = tval{t: e.val, ty: e.typ, addr: e.isAddr}
		}
	}
	for _, p := range fr.fn.Params {
		if _, shadow := names[p.Name()]; !shadow {
			names[p.Name()] = tval{t: fr.regs[p], ty: p.Type()}
		}
	}
	for i, fv := range fr.fn.FreeVars {
		_ = i
		if _, shadow := names[fv.Name()]; !shadow {
			names[fv.Name()] = tval{t: fr.regs[fv], ty: derefType(fv.Type()), addr: true}
		}
	}
	for k, e := range fr.u.logical {
		names[k] = tval{t: e.val, ty: e.typ}
	}
	if fr.isRoot {
		for alias, idx := range fr.u.paramAliasIdx {
			if idx < len(fr.fn.Params) {
				if t, ok := fr.regs[fr.fn.Params[idx]]; ok {
					names[alias] = tval{t: t, ty: fr.fn.Params[idx].Type()}
				}
			}
		}
		for alias, real := range fr.u.paramAlias {
			if v, ok := names[real]; ok {
				if _, clash := names[alias]; !clash {
					names[alias] = v
				}
			}
		}
	}
	for k, v := range fr.extraNames {
		names[k] = v
	}
	return names
}

func (c *evalCtx) state() *State {
	if c.inOld && c.old != nil {
		return c.old
	}
	return c.cur
}

// rvalue loads the value if v is an address.
func (c *evalCtx) rvalue(v tval) tval {
	if !v.addr {
		return v
	}
	fr := c.fr
	st := c.state()
	if isComposite(v.ty) {
		return tval{t: fr.loadValue(st, v.ty, v.t, nil), ty: v.ty}
	}
	return tval{t: fr.loadLeaf(st, fr.u.w.typeCell(v.ty, v.t)), ty: v.ty}
}

func (c *evalCtx) eval(e *Expr) (tval, error) {
	v, err := c.eval1(e)
	if err != nil {
		return v, err
	}
	return c.rvalue(v), nil
}

func (c *evalCtx) eval1(e *Expr) (tval, error) {
	fr := c.fr
	u := fr.u
	w := u.w
	switch e.Op {
	case "int":
		return tval{t: IntLitStr(e.Name), ty: tInt}, nil
	case "bool":
		return tval{t: BoolLit(e.Name == "true"), ty: tBool}, nil
	case "str":
		return tval{t: w.strLit(e.Name), ty: tStr}, nil
	case "nil":
		return tval{t: NilLoc, ty: types.Typ[types.UntypedNil], nilLit: true}, nil
	case "id":
		if c.inOld {
			// in the entry state a parameter name denotes the argument, even if the variable is addressable; inside a
			// closure that runs in context the parameters of the enclosing functions count as well (old = their entry)
			for f := c.fr; f != nil; f = f.parent {
				for _, p := range f.fn.Params {
					if p.Name() == e.Name {
						if t, ok := f.regs[p]; ok {
							if _, isBound := c.bound[e.Name]; !isBound {
								return tval{t: t, ty: p.Type()}, nil
							}
						}
					}
				}
				if !c.oldFromRoot {
					break
				}
			}
		}
		if v, ok := c.names[e.Name]; ok {
			return v, nil
		}
		if g, ok := c.state().ghost[e.Name]; ok {
			return tval{t: g, ty: sortType(g.Sort)}, nil
		}
		// package-level variable or constant
		if c.pkg != nil {
			if obj := c.pkg.Scope().Lookup(e.Name); obj != nil {
				switch o := obj.(type) {
				case *types.Const:
					return c.constVal(o)
				case *types.Var:
					if sp := u.w.ld.SSA[c.pkg.Path()]; sp != nil {
						if g, ok := sp.Members[e.Name].(interface{ Type() types.Type }); ok {
							_ = g
						}
					}
				}
			}
		}
		return tval{}, fmt.Errorf("unknown name %q", e.Name)
	case "old":
		if c.old == nil {
			return tval{}, fmt.Errorf("old() not available here")
		}
		saved := c.inOld
		c.inOld = true
		v, err := c.eval(e.Args[0])
		c.inOld = saved
		return v, err
	case "field":
		// package-qualified constant?  pkg.Name
		if e.Args[0].Op == "id" {
			if _, isVar := c.names[e.Args[0].Name]; !isVar {
				if p := c.importedPkg(e.Args[0].Name); p != nil {
					if obj, ok := p.Scope().Lookup(e.Name).(*types.Const); ok {
						return c.constVal(obj)
					}
					return tval{}, fmt.Errorf("unknown %s.%s", e.Args[0].Name, e.Name)
				}
			}
		}
		x, err := c.eval1(e.Args[0])
		if err != nil {
			return tval{}, err
		}
		return c.field(x, e.Name)
	case "index":
		x, err := c.eval(e.Args[0])
		if err != nil {
			return tval{}, err
		}
		i, err := c.eval(e.Args[1])
		if err != nil {
			return tval{}, err
		}
		return c.index(x, i)
	case "slice":
		x, err := c.eval(e.Args[0])
		if err != nil {
			return tval{}, err
		}
		var lo, hi Term
		lo = IntLit(0)
		if e.Args[1] != nil {
			v, err := c.eval(e.Args[1])
			if err != nil {
				return tval{}, err
			}
			lo = v.t
		}
		switch x.t.Sort {
		case SStr:
			hi = StrLen(x.t)
		case SBytes:
			hi = StrLen(BStr(x.t))
		case SSlice:
			hi = SLen(x.t)
		default:
			return tval{}, fmt.Errorf("cannot slice %s", e.Args[0])
		}
		if e.Args[2] != nil {
			v, err := c.eval(e.Args[2])
			if err != nil {
				return tval{}, err
			}
			hi = v.t
		}
		u.features["strsub"] = true
		switch x.t.Sort {
		case SStr:
			return tval{t: StrSub(x.t, lo, hi), ty: x.ty}, nil
		case SBytes:
			return tval{t: MkBytes(False, StrSub(BStr(x.t), lo, hi)), ty: x.ty}, nil
		default:
			et := x.ty.Underlying().(*types.Slice).Elem()
			sz := int64(w.sizeOf(et))
			return tval{t: MkSlice(ElemS(SPtr(x.t), lo, sz), Sub(hi, lo), Sub(SCap(x.t), lo)), ty: x.ty}, nil
		}
	case "un":
		x, err := c.eval(e.Args[0])
		if err != nil {
			return tval{}, err
		}
		if e.Name == "!" {
			if x.t.Sort != SBool {
				return tval{}, fmt.Errorf("! applied to non-boolean %s", e.Args[0])
			}
			return tval{t: Not(x.t), ty: tBool}, nil
		}
		return tval{t: mk(x.t.Sort, "-", x.t), ty: x.ty}, nil
	case "ite":
		cnd, err := c.eval(e.Args[0])
		if err != nil {
			return tval{}, err
		}
		a, err := c.eval(e.Args[1])
		if err != nil {
			return tval{}, err
		}
		b, err := c.eval(e.Args[2])
		if err != nil {
			return tval{}, err
		}
		a, b = c.unifyNil(a, b)
		return tval{t: Ite(cnd.t, a.t, b.t), ty: a.ty}, nil
	case "bin":
		return c.binary(e)
	case "forall", "exists":
		var vars []Term
		saved := map[string]*tval{}
		for _, b := range e.Vars {
			ty, err := c.resolveType(b.Type)
			if err != nil {
				return tval{}, err
			}
			*c.nq++
			sym := Sym(fmt.Sprintf("%s!q%d_%d", b.Name, u.nsym, *c.nq), w.sortOf(ty))
			vars = append(vars, sym)
			if old, ok := c.names[b.Name]; ok {
				o := old
				saved[b.Name] = &o
			} else {
				saved[b.Name] = nil
			}
			c.names[b.Name] = tval{t: sym, ty: ty}
			if c.bound == nil {
				c.bound = map[string]bool{}
			}
			c.bound[b.Name] = true
		}
		body, err := c.eval(e.Args[0])
		for k, v := range saved {
			if v == nil {
				delete(c.names, k)
			} else {
				c.names[k] = *v
			}
		}
		if err != nil {
			return tval{}, err
		}
		if body.t.Sort != SBool {
			return tval{}, fmt.Errorf("quantifier body is not boolean")
		}
		u.usesQuant = true
		if e.Op == "forall" {
			if pats := autoPatterns(vars, body.t.S); len(pats) > 0 {
				return tval{t: Forall(vars, body.t, pats...), ty: tBool}, nil
			}
			return tval{t: Forall(vars, body.t), ty: tBool}, nil
		}
		return tval{t: Exists(vars, body.t), ty: tBool}, nil
	case "call":
		return c.call(e)
	}
	return tval{}, fmt.Errorf("unsupported expression %s", e)
}

func sortType(s Sort) types.Type {
	switch s {
	case SBool:
		return tBool
	case SStr:
		return tStr
	}
	return tInt
}

func (c *evalCtx) constVal(o *types.Const) (tval, error) {
	w := c.fr.u.w
	ty := o.Type()
	switch w.sortOf(ty) {
	case SInt:
		return tval{t: IntLitStr(o.Val().ExactString()), ty: ty}, nil
	case SBool:
		return tval{t: BoolLit(o.Val().String() == "true"), ty: ty}, nil
	case SStr:
		s := o.Val().ExactString()
		var lit string
		fmt.Sscanf(s, "%q", &lit)
		return tval{t: w.strLit(lit), ty: ty}, nil
	}
	return tval{}, fmt.Errorf("unsupported constant %s", o.Name())
}

func (c *evalCtx) importedPkg(name string) *types.Package {
	if c.pkg == nil {
		return nil
	}
	return c.fr.u.w.importByName(c.pkg, name)
}

// field selects a field of a struct value, of a struct at an address, or of a pointer to a struct.
func (c *evalCtx) field(x tval, name string) (tval, error) {
	fr := c.fr
	w := fr.u.w
	st := c.state()
	// pointer to struct (value or variable holding a pointer): deref
	if x.addr {
		if _, isStruct := x.ty.Underlying().(*types.Struct); !isStruct {
			x = c.rvalue(x)
		}
	}
	if p, ok := x.ty.Underlying().(*types.Pointer); ok && !x.addr {
		x = tval{t: x.t, ty: p.Elem(), addr: true}
	}
	s, ok := x.ty.Underlying().(*types.Struct)
	if !ok {
		return tval{}, fmt.Errorf("field %s of non-struct type %s", name, x.ty)
	}
	idx := -1
	for i := 0; i < s.NumFields(); i++ {
		if s.Field(i).Name() == name {
			idx = i
		}
	}
	if idx < 0 {
		// promoted through an embedded field
		for i := 0; i < s.NumFields(); i++ {
			if s.Field(i).Embedded() {
				inner, err := c.field(x, s.Field(i).Name())
				if err == nil {
					if r, err2 := c.field(inner, name); err2 == nil {
						return r, nil
					}
				}
			}
		}
		return tval{}, fmt.Errorf("type %s has no field %s", x.ty, name)
	}
	ft := s.Field(idx).Type()
	if !x.addr {
		return tval{t: w.structField(x.ty, x.t, idx), ty: ft}, nil
	}
	if isComposite(ft) {
		return tval{t: LocAdd(x.t, IntLit(int64(w.fieldOffset(s, idx)))), ty: ft, addr: true}, nil
	}
	cl := fr.fieldCell(x.ty, x.t, idx)
	lv := fr.loadLeaf(st, cl)
	if fr.u.w.sh.nonNilField[cl.key] && !strings.Contains(lv.S, "!q") && !strings.Contains(lv.S, "!ax") && !strings.Contains(lv.S, "!lg") {
		// declared type invariant: the field is never nil (only stated for ground terms)
		switch lv.Sort {
		case SLoc:
			fr.u.assume(True, Neq(lv, NilLoc))
		case SIface:
			fr.u.assume(True, Neq(ITag(lv), IntLit(0)))
		}
	}
	return tval{t: lv, ty: ft}, nil
}

func (c *evalCtx) index(x, i tval) (tval, error) {
	fr := c.fr
	w := fr.u.w
	st := c.state()
	switch xt := x.ty.Underlying().(type) {
	case *types.Slice:
		if isByte(xt.Elem()) {
			return tval{t: StrAt(BStr(x.t), i.t), ty: xt.Elem()}, nil
		}
		sz := int64(w.sizeOf(xt.Elem()))
		a := ElemS(SPtr(x.t), i.t, sz)
		if isComposite(xt.Elem()) {
			return tval{t: a, ty: xt.Elem(), addr: true}, nil
		}
		return tval{t: fr.loadLeaf(st, w.typeCell(xt.Elem(), a)), ty: xt.Elem()}, nil
	case *types.Map:
		dom, val := fr.mapArrays(st, xt, x.t)
		vs := w.sortOf(xt.Elem())
		return tval{t: Ite(And(Neq(x.t, NilLoc), Select(dom, i.t, SBool)), Select(val, i.t, vs), w.zero(xt.Elem())), ty: xt.Elem()}, nil
	case *types.Basic:
		if x.t.Sort == SStr {
			return tval{t: StrAt(x.t, i.t), ty: types.Typ[types.Uint8]}, nil
		}
	case *types.Array:
		return tval{t: Select(x.t, i.t, w.sortOf(xt.Elem())), ty: xt.Elem()}, nil
	}
	if x.t.Sort == SBytes {
		return tval{t: StrAt(BStr(x.t), i.t), ty: types.Typ[types.Uint8]}, nil
	}
	if strings.HasPrefix(string(x.t.Sort), "(Array ") {
		// ghost array: the element sort is the last component of the sort
		ss := strings.TrimSuffix(string(x.t.Sort), ")")
		es := Sort(ss[strings.LastIndex(ss, " ")+1:])
		return tval{t: mk(es, "select", x.t, i.t), ty: sortType(es)}, nil
	}
	return tval{}, fmt.Errorf("cannot index %s", x.ty)
}

func (c *evalCtx) unifyNil(a, b tval) (tval, tval) {
	if a.nilLit && !b.nilLit {
		a = nilOf(b)
	} else if b.nilLit && !a.nilLit {
		b = nilOf(a)
	}
	return a, b
}

func nilOf(like tval) tval {
	switch like.t.Sort {
	case SSlice:
		return tval{t: NilSlice, ty: like.ty, nilLit: true}
	case SBytes:
		return tval{t: NilBytes, ty: like.ty, nilLit: true}
	case SIface:
		return tval{t: NilIface, ty: like.ty, nilLit: true}
	}
	return tval{t: NilLoc, ty: like.ty, nilLit: true}
}

func (c *evalCtx) binary(e *Expr) (tval, error) {
	a, err := c.eval(e.Args[0])
	if err != nil {
		return tval{}, err
	}
	b, err := c.eval(e.Args[1])
	if err != nil {
		return tval{}, err
	}
	op := e.Name
	needBool := func() error {
		if a.t.Sort != SBool || b.t.Sort != SBool {
			return fmt.Errorf("operands of %s must be boolean in %s", op, e)
		}
		return nil
	}
	switch op {
	case "&&":
		if err := needBool(); err != nil {
			return tval{}, err
		}
		return tval{t: And(a.t, b.t), ty: tBool}, nil
	case "||":
		if err := needBool(); err != nil {
			return tval{}, err
		}
		return tval{t: Or(a.t, b.t), ty: tBool}, nil
	case "==>":
		if err := needBool(); err != nil {
			return tval{}, err
		}
		return tval{t: Implies(a.t, b.t), ty: tBool}, nil
	case "<==>":
		if err := needBool(); err != nil {
			return tval{}, err
		}
		return tval{t: Eq(a.t, b.t), ty: tBool}, nil
	case "==", "!=":
		var eq Term
		switch {
		case a.nilLit || b.nilLit:
			x := a
			if a.nilLit {
				x = b
			}
			switch x.t.Sort {
			case SBytes:
				eq = BIsNil(x.t)
			case SSlice:
				eq = Eq(SPtr(x.t), NilLoc)
			case SIface:
				eq = Eq(ITag(x.t), IntLit(0))
			default:
				eq = Eq(x.t, NilLoc)
			}
		case a.t.Sort == SBytes && b.t.Sort == SBytes:
			eq = Eq(BStr(a.t), BStr(b.t)) // content equality
		case a.t.Sort == SBytes && b.t.Sort == SStr:
			eq = Eq(BStr(a.t), b.t)
		case a.t.Sort == SStr && b.t.Sort == SBytes:
			eq = Eq(a.t, BStr(b.t))
		case a.t.Sort != b.t.Sort:
			return tval{}, fmt.Errorf("comparison of different sorts %s and %s in %s", a.t.Sort, b.t.Sort, e)
		default:
			eq = Eq(a.t, b.t)
		}
		if op == "!=" {
			eq = Not(eq)
		}
		return tval{t: eq, ty: tBool}, nil
	case "<", "<=", ">", ">=":
		if a.t.Sort == SBytes {
			a.t = BStr(a.t)
		}
		if b.t.Sort == SBytes {
			b.t = BStr(b.t)
		}
		if a.t.Sort == SStr && b.t.Sort == SStr {
			c.fr.u.features["strlt"] = true
			switch op {
			case "<":
				return tval{t: StrLt(a.t, b.t), ty: tBool}, nil
			case "<=":
				return tval{t: Not(StrLt(b.t, a.t)), ty: tBool}, nil
			case ">":
				return tval{t: StrLt(b.t, a.t), ty: tBool}, nil
			default:
				return tval{t: Not(StrLt(a.t, b.t)), ty: tBool}, nil
			}
		}
		if (a.t.Sort != SInt && a.t.Sort != SReal) || a.t.Sort != b.t.Sort {
			return tval{}, fmt.Errorf("ordering comparison of %s and %s in %s", a.t.Sort, b.t.Sort, e)
		}
		return tval{t: mk(SBool, op, a.t, b.t), ty: tBool}, nil
	case "+":
		if a.t.Sort == SStr {
			return tval{t: StrCat(a.t, asStr(b.t)), ty: a.ty}, nil
		}
		if a.t.Sort == SBytes {
			bs := b.t
			if bs.Sort == SBytes {
				bs = BStr(bs)
			}
			return tval{t: MkBytes(False, StrCat(BStr(a.t), bs)), ty: a.ty}, nil
		}
		return tval{t: mk(a.t.Sort, "+", a.t, b.t), ty: a.ty}, nil
	case "-":
		return tval{t: mk(a.t.Sort, "-", a.t, b.t), ty: a.ty}, nil
	case "*":
		return tval{t: mk(a.t.Sort, "*", a.t, b.t), ty: a.ty}, nil
	case "/":
		if a.t.Sort == SReal {
			return tval{t: mk(SReal, "/", a.t, b.t), ty: a.ty}, nil
		}
		return tval{t: truncDiv(a.t, b.t), ty: a.ty}, nil
	case "%":
		return tval{t: truncRem(a.t, b.t), ty: a.ty}, nil
	case "in":
		mt, ok := b.ty.Underlying().(*types.Map)
		if !ok {
			return tval{}, fmt.Errorf("'in' needs a map on the right in %s", e)
		}
		dom, _ := c.fr.mapArrays(c.state(), mt, b.t)
		return tval{t: And(Neq(b.t, NilLoc), Select(dom, a.t, SBool)), ty: tBool}, nil
	}
	return tval{}, fmt.Errorf("unknown operator %s", op)
}

// resolveType resolves a type written in a contract: "", int, string, []byte, *pkg.T, pkg.T, T, bool, loc
func (c *evalCtx) resolveType(s string) (types.Type, error) {
	return c.fr.u.w.resolveType(c.pkg, s)
}

func (w *World) resolveType(pkg *types.Package, s string) (types.Type, error) {
	s = strings.TrimSpace(s)
	switch s {
	case "", "int":
		return tInt, nil
	case "int64":
		return types.Typ[types.Int64], nil
	case "int32":
		return types.Typ[types.Int32], nil
	case "bool":
		return tBool, nil
	case "string":
		return tStr, nil
	case "[]byte":
		return types.NewSlice(types.Typ[types.Uint8]), nil
	case "error":
		return types.Universe.Lookup("error").Type(), nil
	}
	if strings.HasPrefix(s, "*") {
		t, err := w.resolveType(pkg, s[1:])
		if err != nil {
			return nil, err
		}
		return types.NewPointer(t), nil
	}
	if strings.HasPrefix(s, "[]") {
		t, err := w.resolveType(pkg, s[2:])
		if err != nil {
			return nil, err
		}
		return types.NewSlice(t), nil
	}
	var p *types.Package = pkg
	name := s
	if i := strings.LastIndex(s, "."); i >= 0 {
		p = w.importByName(pkg, s[:i])
		name = s[i+1:]
		if p == nil {
			return nil, fmt.Errorf("unknown package %q in type %q", s[:i], s)
		}
	}
	if p == nil {
		return nil, fmt.Errorf("cannot resolve type %q", s)
	}
	obj := p.Scope().Lookup(name)
	tn, ok := obj.(*types.TypeName)
	if !ok {
		return nil, fmt.Errorf("unknown type %q", s)
	}
	return tn.Type(), nil
}

// importByName finds a package imported by pkg (under its local name or its package name).
func (w *World) importByName(pkg *types.Package, name string) *types.Package {
	if pkg == nil {
		return nil
	}
	if m, ok := w.importNames[pkg.Path()]; ok {
		if p, ok := m[name]; ok {
			return p
		}
	}
	for _, imp := range pkg.Imports() {
		if imp.Name() == name {
			return imp
		}
	}
	// search transitively by package name (trusted specs refer to packages not imported directly)
	for _, p := range w.sh.allTypes {
		if p.Name() == name {
			return p
		}
	}
	return nil
}

// autoPatterns: explicit triggers for contract quantifiers over pointer / slice variables. Left to itself z3 picks
// (obj p) or (sptr s) as the trigger of `forall p *T :: ... p.f ...`, which matches every location term of the query
// and makes it diverge. The triggers chosen here are the heap reads at the bound variable itself: (select H p) for a
// pointer p, (select H (elem (sptr s) j)) for a slice s with index j. Only used when one such term mentions all the
// bound variables.
func autoPatterns(vars []Term, body string) [][]Term {
	hasRef := false
	for _, v := range vars {
		if v.Sort == SLoc || v.Sort == SSlice {
			hasRef = true
		}
	}
	if !hasRef {
		return nil
	}
	sym := `(?:\|[^|]*\||[^\s()]+)`
	var cands []string
	seen := map[string]bool{}
	add := func(t string) {
		if seen[t] {
			return
		}
		for _, v := range vars {
			if !strings.Contains(t, v.S) {
				return
			}
		}
		seen[t] = true
		cands = append(cands, t)
	}
	for _, v := range vars {
		q := regexp.QuoteMeta(v.S)
		switch v.Sort {
		case SLoc:
			re := regexp.MustCompile(`\(select ` + sym + ` ` + q + `\)`)
			for _, m := range re.FindAllString(body, -1) {
				add(m)
			}
		case SSlice:
			re := regexp.MustCompile(`\(select ` + sym + ` \(elem \(sptr ` + q + `\) ` + sym + `\)\)`)
			for _, m := range re.FindAllString(body, -1) {
				add(m)
			}
		}
	}
	if len(cands) == 0 || len(cands) > 4 {
		return nil
	}
	var out [][]Term
	for _, c := range cands {
		out = append(out, []Term{{S: c, Sort: SBool}})
	}
	return out
}
