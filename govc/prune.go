package main

import (
	"regexp"
	"strings"
	"sync"
)

// Cone of influence: a query only needs the declarations, definitions and permanent heap facts whose symbols it can
// reach. The speculative passes (effect discovery of loops and callbacks) leave declarations and heap facts behind
// that no later fact or goal mentions; without pruning they are quantified axioms in every query of the unit.

var smtSymRe = regexp.MustCompile(`\|[^|]*\||[^\s()]+`)
var cmdNameRe = regexp.MustCompile(`^\((?:declare-const|declare-fun|define-fun) (\|[^|]*\||[^\s()]+)`)

type cmdInfo struct {
	name  string // symbol introduced ("" for a bare assert)
	owner int    // for a bare assert: index of the nearest preceding declaration (-1: none)
	refs  []int  // indices of the cmds whose symbols this cmd mentions
}

type pruneIndex struct {
	mu       sync.Mutex
	infos    []cmdInfo
	byName   map[string]int
	factRefs [][]int
}

func (u *Unit) pruneIdx() *pruneIndex {
	if u.prune == nil {
		u.prune = &pruneIndex{byName: map[string]int{}}
	}
	return u.prune
}

func (p *pruneIndex) refsOf(text string, self int) []int {
	seen := map[int]bool{}
	var out []int
	for _, s := range smtSymRe.FindAllString(text, -1) {
		if i, ok := p.byName[s]; ok && i != self && !seen[i] {
			seen[i] = true
			out = append(out, i)
		}
	}
	return out
}

// extend indexes cmds[len(infos):n] and facts[len(factRefs):nf].
func (p *pruneIndex) extend(u *Unit, n, nf int) {
	lastDecl := -1
	if len(p.infos) > 0 {
		for i := len(p.infos) - 1; i >= 0; i-- {
			if p.infos[i].name != "" {
				lastDecl = i
				break
			}
		}
	}
	start := len(p.infos)
	// names first (a definition may only refer to earlier names, but indexing all names first is harmless)
	for i := start; i < n; i++ {
		c := u.cmds[i]
		ci := cmdInfo{owner: -1}
		if m := cmdNameRe.FindStringSubmatch(c); m != nil {
			ci.name = m[1]
			p.byName[ci.name] = i
		}
		p.infos = append(p.infos, ci)
	}
	for i := start; i < n; i++ {
		if p.infos[i].name != "" {
			lastDecl = i
		} else {
			p.infos[i].owner = lastDecl
		}
		p.infos[i].refs = p.refsOf(u.cmds[i], i)
	}
	for i := len(p.factRefs); i < nf; i++ {
		p.factRefs = append(p.factRefs, p.refsOf(u.facts[i], -1))
	}
}

// prunedCmds returns the cmds (in order) that the facts[:nfacts] and the extra text (guard, goal) can reach.
func (u *Unit) prunedCmds(ncmds, nfacts int, extra string) []string {
	p := u.pruneIdx()
	p.mu.Lock()
	defer p.mu.Unlock()
	if len(p.infos) < ncmds || len(p.factRefs) < nfacts {
		n := len(u.cmds)
		nf := len(u.facts)
		p.extend(u, n, nf)
	}
	used := make([]bool, ncmds)
	mark := func(rs []int) {
		for _, r := range rs {
			if r < ncmds {
				used[r] = true
			}
		}
	}
	for i := 0; i < nfacts; i++ {
		mark(p.factRefs[i])
	}
	mark(p.refsOf(extra, -1))
	// string literal facts / axioms of the header mention only prelude symbols and literals: literals are declared
	// outside cmds
	for i := ncmds - 1; i >= 0; i-- {
		ci := p.infos[i]
		if ci.name == "" {
			// bare assert: a defining fact of the declaration before it
			if ci.owner >= 0 && ci.owner < ncmds && used[ci.owner] {
				used[i] = true
				mark(ci.refs)
			}
			continue
		}
		if used[i] {
			mark(ci.refs)
		}
	}
	// bare asserts sit after their owner: one more forward pass is not needed because owners are marked by later
	// references only, and the assert was visited before its owner in the backward pass - so re-visit asserts whose
	// owner got marked after them
	changed := true
	for changed {
		changed = false
		for i := ncmds - 1; i >= 0; i-- {
			ci := p.infos[i]
			if ci.name == "" && !used[i] && ci.owner >= 0 && used[ci.owner] {
				used[i] = true
				for _, r := range ci.refs {
					if r < ncmds && !used[r] {
						used[r] = true
						changed = true
					}
				}
			}
		}
		if changed {
			// newly used declarations may pull in further definitions
			for i := ncmds - 1; i >= 0; i-- {
				if used[i] && p.infos[i].name != "" {
					for _, r := range p.infos[i].refs {
						if r < ncmds && !used[r] {
							used[r] = true
						}
					}
				}
			}
		}
	}
	var out []string
	for i := 0; i < ncmds; i++ {
		if used[i] {
			out = append(out, u.cmds[i])
		}
	}
	_ = strings.TrimSpace
	return out
}

// relevantFacts: a SInE-style selection of the facts[:nfacts] that are relevant to the text `goal`: a fact is
// triggered by a symbol if that symbol is among the fact's rarest symbols (within a tolerance); selection starts from
// the goal's symbols and follows triggers for `depth` rounds. Dropping hypotheses is sound for `unsat` answers.
func (u *Unit) relevantFacts(ncmds, nfacts int, goal string, depth int, tol float64) []int {
	p := u.pruneIdx()
	p.mu.Lock()
	defer p.mu.Unlock()
	if len(p.infos) < ncmds || len(p.factRefs) < nfacts {
		p.extend(u, len(u.cmds), len(u.facts))
	}
	freq := map[int]int{}
	for i := 0; i < nfacts; i++ {
		for _, r := range p.factRefs[i] {
			freq[r]++
		}
	}
	// trigger symbols of each fact
	trig := make([][]int, nfacts)
	for i := 0; i < nfacts; i++ {
		min := 1 << 30
		for _, r := range p.factRefs[i] {
			if freq[r] < min {
				min = freq[r]
			}
		}
		for _, r := range p.factRefs[i] {
			if float64(freq[r]) <= tol*float64(min) {
				trig[i] = append(trig[i], r)
			}
		}
	}
	have := map[int]bool{}
	var expand func(r int, d int)
	expand = func(r int, d int) {
		// a defined symbol brings the symbols of its definition with it
		if have[r] || d > 6 {
			return
		}
		have[r] = true
		if r < len(p.infos) && strings.HasPrefix(u.cmds[r], "(define-fun") {
			for _, q := range p.infos[r].refs {
				expand(q, d+1)
			}
		}
	}
	for _, r := range p.refsOf(goal, -1) {
		expand(r, 0)
	}
	sel := make([]bool, nfacts)
	for round := 0; round < depth; round++ {
		var added []int
		for i := 0; i < nfacts; i++ {
			if sel[i] {
				continue
			}
			if len(p.factRefs[i]) == 0 {
				sel[i] = true // ground facts about prelude symbols only (cheap)
				continue
			}
			for _, t := range trig[i] {
				if have[t] {
					sel[i] = true
					added = append(added, i)
					break
				}
			}
		}
		if len(added) == 0 {
			break
		}
		for _, i := range added {
			for _, r := range p.factRefs[i] {
				expand(r, 0)
			}
		}
	}
	var out []int
	for i := 0; i < nfacts; i++ {
		if sel[i] {
			out = append(out, i)
		}
	}
	return out
}
