package main

import (
	"fmt"
	"go/token"
	"go/types"
	"strings"

	"golang.org/x/tools/go/ssa"
)

// heapLayer: the state was produced by a call that may allocate and write fresh objects; heaps not
// explicitly modified agree with the previous ones on all objects allocated before the call.
type heapLayer struct {
	prevHeaps map[string]Term
	prevEpoch int
	prevLayer *heapLayer
	allocOld  Term
	allocNew  Term
}

// heapWF states the well-formedness of a fresh heap symbol: every reference stored in it is allocated.
func (u *Unit) heapWF(h Term, vs Sort, alloc Term) {
	if alloc.S == "" {
		return
	}
	l := Sym("l!", SLoc)
	v := Select(h, l, vs)
	switch vs {
	case SLoc:
		u.assume(True, Forall([]Term{l}, And(Le(Obj(v), alloc), Ge(Off(v), IntLit(0))), []Term{v}))
	case SSlice:
		u.assume(True, Forall([]Term{l}, And(Le(Obj(SPtr(v)), alloc), Le(IntLit(0), SLen(v)), Le(SLen(v), SCap(v)), Ge(Off(SPtr(v)), IntLit(0)),
			Or(Neq(Obj(SPtr(v)), IntLit(0)), Eq(SCap(v), IntLit(0)))), []Term{v}))
	case SIface:
		u.assume(True, Forall([]Term{l}, Le(Obj(IVal(v)), alloc), []Term{v}))
	}
}

func (u *Unit) heapResolve(heaps map[string]Term, epoch int, layer *heapLayer, key string, vs Sort) Term {
	hs := u.w.heapSort(key, vs)
	if t, ok := heaps[key]; ok {
		return t
	}
	if layer == nil {
		name := fmt.Sprintf("H!%s!%d", key, epoch)
		isNew := !u.declared[quoteSym(name)]
		h := u.declareOnce(name, hs)
		if isNew {
			// the well-formedness fact is stored with the declaration (cmds), so that it survives the speculative
			// passes that discard facts but keep declarations
			nf := len(u.facts)
			u.heapWF(h, vs, u.epochAlloc[epoch])
			for _, f := range u.facts[nf:] {
				u.cmds = append(u.cmds, "(assert "+f+")")
			}
			u.facts = u.facts[:nf]
		}
		return h
	}
	prev := u.heapResolve(layer.prevHeaps, layer.prevEpoch, layer.prevLayer, key, vs)
	h := u.fresh("Hc!"+key, hs)
	l := Sym("l!", SLoc)
	// the defining facts of the lazily materialised heap are kept with its declaration: the symbol is memoised in a
	// map that can outlive a speculative pass, which discards facts but keeps declarations
	nf := len(u.facts)
	u.assume(True, Forall([]Term{l}, Implies(Le(Obj(l), layer.allocOld), Eq(Select(h, l, vs), Select(prev, l, vs))), []Term{Select(h, l, vs)}))
	u.heapWF(h, vs, layer.allocNew)
	for _, f := range u.facts[nf:] {
		u.cmds = append(u.cmds, "(assert "+f+")")
	}
	u.facts = u.facts[:nf]
	heaps[key] = h
	return h
}

func (fr *Frame) execCall(x *ssa.Call, st *State) *State {
	res, st2 := fr.doCall(x.Common(), x, st, nil, Term{})
	if st2 == nil {
		return nil
	}
	fr.bindResults(x, x.Type(), res, st2)
	return st2
}

func (fr *Frame) bindResults(v ssa.Value, t types.Type, res []Term, st *State) {
	if tup, ok := t.(*types.Tuple); ok {
		if tup.Len() == 0 {
			return
		}
		if tup.Len() > 1 {
			fr.tuples[v] = res
			return
		}
	}
	if len(res) == 1 {
		fr.regs[v] = res[0]
	}
}

// doCall performs a call. preArgs (if non-nil) are already evaluated argument terms (deferred calls).
func (fr *Frame) doCall(c *ssa.CallCommon, site ssa.Instruction, st *State, preArgs []Term, preFn Term) ([]Term, *State) {
	args := preArgs
	if args == nil {
		for _, a := range c.Args {
			args = append(args, fr.val(a))
		}
	}
	fr.checkCallSiteAsserts(c, args, preFn, preArgs == nil, st, site.Pos(), nil, false)
	res, out := fr.doCallInner(c, site, st, args, preArgs == nil, preFn)
	if out != nil {
		fr.checkCallSiteAsserts(c, args, preFn, preArgs == nil, out, site.Pos(), res, true)
	}
	return res, out
}

func (fr *Frame) doCallInner(c *ssa.CallCommon, site ssa.Instruction, st *State, args []Term, evalFn bool, preFn Term) ([]Term, *State) {
	u := fr.u
	var preArgs []Term
	if !evalFn {
		preArgs = args
	}
	pos := site.Pos()
	if c.IsInvoke() {
		recv := preFn
		if preArgs == nil {
			recv = fr.val(c.Value)
		}
		u.oblige(fr, "nil-deref", pos, fr.srcText(pos, "method call on nil interface"), st.pc, Neq(ITag(recv), IntLit(0)), false)
		key := ifaceMethodKey(c.Value.Type(), c.Method.Name())
		all := append([]Term{recv}, args...)
		fr.checkGuardedInvoke(c, st, pos)
		if ct := u.lookupContract(key); ct != nil {
			return fr.applyContract(ct, key, c.Method.Type().(*types.Signature), nil, all, c.Value.Type(), st, pos, fr.closureArgs(c))
		}
		if pureIfaceMethod(c.Value.Type(), c.Method.Name()) {
			return fr.freshResults(c.Signature().Results(), st, "call"), st
		}
		return fr.unknownCall(key, c.Signature().Results(), st, pos)
	}
	switch callee := c.Value.(type) {
	case *ssa.Builtin:
		return fr.execBuiltin(callee, c, args, st, pos)
	case *ssa.Function:
		return fr.callFunction(callee, args, nil, st, site, c.Args)
	case *ssa.MakeClosure:
		fn := callee.Fn.(*ssa.Function)
		var binds []Term
		for _, b := range callee.Bindings {
			binds = append(binds, fr.val(b))
		}
		return fr.callFunction(fn, args, binds, st, site, c.Args)
	}
	// dynamic call through a function value
	fv := preFn
	if preArgs == nil {
		fv = fr.val(c.Value)
	}
	return fr.callDynamic(fv, c, args, st, site)
}

// closureVal is a closure value whose code and captured variables are known (created in this unit).
type closureVal struct {
	fn    *ssa.Function
	binds []Term
	mc    *ssa.MakeClosure
	frame *Frame
}

// closureArgs finds the arguments that are known closures (by the term of the closure value, so that closures
// returned from inlined helpers are found as well).
func (fr *Frame) closureArgs(c *ssa.CallCommon) map[int]*closureVal {
	m := map[int]*closureVal{}
	for i, a := range c.Args {
		if _, isFn := a.Type().Underlying().(*types.Signature); !isFn {
			continue
		}
		if cv, ok := fr.u.closureTerms[fr.val(a).S]; ok {
			m[i] = cv
		}
	}
	return m
}

func pureIfaceMethod(t types.Type, name string) bool {
	ts := types.TypeString(types.Unalias(t), nil)
	switch ts {
	case "error":
		return true
	case "context.Context":
		return true
	case "os.FileInfo", "io/fs.FileInfo":
		return true
	}
	return false
}

// pureLibraryPkgs: functions of these packages are assumed total and without effect on the heaps we model
// (listed as an assumption in the evidence).
var pureLibraryPkgs = map[string]bool{
	"fmt": true, "log": true, "strconv": true, "strings": true, "bytes": true, "time": true, "errors": true,
	"math": true, "math/rand": true, "path/filepath": true, "path": true, "mime": true, "encoding/base64": true,
	"crypto/md5": true, "unicode": true, "unicode/utf8": true, "regexp": true, "rsc.io/binaryregexp": true,
	"google.golang.org/grpc/status": true, "google.golang.org/grpc/codes": true, "net/url": true, "net/textproto": true,
	"net/http": true, "os": true, "io": true, "context": true, "encoding/binary": true,
	"cloud.google.com/go/bigtable": true, "google.golang.org/protobuf/proto": true, "encoding/json": true,
	"compress/gzip": true, "mime/multipart": true, "bufio": true, "net/http/httptest": true, "io/fs": true,
	"github.com/syndtr/goleveldb/leveldb": true, "github.com/google/btree": true, "github.com/bluele/gcache": true,
	"github.com/syndtr/goleveldb/leveldb/iterator": true, "google.golang.org/grpc": true, "net": true, "sync/atomic": true,
	"github.com/syndtr/goleveldb/leveldb/storage": true,
}

func fnPkgPath(fn *ssa.Function) string {
	if fn.Pkg != nil {
		return fn.Pkg.Pkg.Path()
	}
	if fn.Object() != nil && fn.Object().Pkg() != nil {
		return fn.Object().Pkg().Path()
	}
	if fn.Parent() != nil {
		return fnPkgPath(fn.Parent())
	}
	return ""
}

func (w *World) inRepo(pkgPath string) bool {
	return strings.HasPrefix(pkgPath, "github.com/fullstorydev/emulators/")
}

func (fr *Frame) callFunction(fn *ssa.Function, args []Term, binds []Term, st *State, site ssa.Instruction, argVals []ssa.Value) ([]Term, *State) {
	u := fr.u
	pos := site.Pos()
	key := funcKey(fn)
	if fn.Signature.Recv() != nil && len(args) > 0 && args[0].Sort == SLoc && u.w.inRepo(fnPkgPath(fn)) {
		if _, isPtr := fn.Signature.Recv().Type().Underlying().(*types.Pointer); isPtr {
			u.oblige(fr, "pre", pos, fmt.Sprintf("%s receiver is non-nil", key), st.pc, Neq(args[0], NilLoc), false)
		}
	}
	if h, ok := intrinsics[intrinsicName(fn)]; ok {
		if res, st2, handled := h(fr, fn, args, st, site, argVals); handled {
			return res, st2
		}
	}
	ct := u.lookupContract(key)
	if ct != nil && !ct.Inline {
		var cl map[int]*closureVal
		if call, ok := site.(ssa.CallInstruction); ok {
			cl = fr.closureArgs(call.Common())
		}
		return fr.applyContract(ct, key, fn.Signature, fn, args, nil, st, pos, cl)
	}
	if fn.Parent() != nil || binds != nil {
		// closures are always executed in context
		if u.canInline(fn, true) {
			return fr.inlineCall(fn, args, binds, st, site, argVals)
		}
	}
	if (ct != nil && ct.Inline) || u.canInline(fn, false) {
		return fr.inlineCall(fn, args, binds, st, site, argVals)
	}
	pp := fnPkgPath(fn)
	if !u.w.inRepo(pp) && pureLibraryPkgs[pp] {
		u.libAssumed[fn.String()]++
		if readOnlyLibPkgs[pp] {
			if res, ok := fr.deterministicLibResults(fn, args, argVals, st); ok {
				return res, st
			}
			return fr.freshResults(fn.Signature.Results(), st, "lib"), st
		}
		st2 := fr.havocPointerArgs(fn, args, argVals, st)
		return fr.freshResults(fn.Signature.Results(), st2, "lib"), st2
	}
	return fr.unknownCall(key, fn.Signature.Results(), st, pos)
}

func intrinsicName(fn *ssa.Function) string {
	return fn.String()
}

func (fr *Frame) freshResults(results *types.Tuple, st *State, prefix string) []Term {
	u := fr.u
	var res []Term
	for i := 0; i < results.Len(); i++ {
		t := results.At(i).Type()
		r := u.fresh(prefix, u.w.sortOf(t))
		fr.assumeTypeInv(st, r, t)
		res = append(res, r)
	}
	return res
}

// unknownCallKeepGhost: like unknownCall, but the iterator-protocol ghosts are kept.
func (fr *Frame) unknownCallKeepGhost(key string, results *types.Tuple, st *State, pos token.Pos) ([]Term, *State) {
	saved := map[string]Term{}
	for g, t := range st.ghost {
		if strings.HasPrefix(g, "stopped_") {
			saved[g] = t
		}
	}
	res, out := fr.unknownCall(key, results, st, pos)
	if out != nil {
		for g, t := range saved {
			out.ghost[g] = t
		}
	}
	return res, out
}

// unknownCall: nothing is known about the callee: all heaps are havocked.
func (fr *Frame) unknownCall(key string, results *types.Tuple, st *State, pos token.Pos) ([]Term, *State) {
	u := fr.u
	u.unknownCalls[key]++
	pre := st
	st = st.clone()
	u.nsym++
	st.epoch = 1000000 + u.nsym
	st.heaps = map[string]Term{}
	st.layer = nil
	a := u.fresh("alloc", SInt)
	u.assume(True, Ge(a, st.alloc))
	st.alloc = a
	u.epochAlloc[st.epoch] = a
	fr.preserveLocals(pre, st)
	fr.preservePrivateArrays(pre, st, nil)
	for g, old := range st.ghost {
		if g == "epoch" || strings.HasPrefix(g, "visited") {
			continue
		}
		st.ghost[g] = u.fresh("g!"+g, old.Sort)
	}
	return fr.freshResults(results, st, "unk"), st
}

// canInline decides whether fn is executed in context instead of through a contract.
func (u *Unit) canInline(fn *ssa.Function, closure bool) bool {
	if len(fn.Blocks) == 0 {
		return false
	}
	for _, f := range u.inlineStack {
		if f == fn {
			return false
		}
	}
	if len(u.inlineStack) >= 8 {
		return false
	}
	if closure {
		return true
	}
	n := 0
	for _, b := range fn.Blocks {
		n += len(b.Instrs)
		for _, s := range b.Succs {
			if s.Dominates(b) {
				return false // loops need invariants: not inlined
			}
		}
	}
	if u.w.inRepo(fnPkgPath(fn)) {
		return n <= 120
	}
	// library code: only small accessor-like functions
	if n > 40 {
		return false
	}
	for _, b := range fn.Blocks {
		for _, in := range b.Instrs {
			switch x := in.(type) {
			case *ssa.Call:
				callee := x.Common().StaticCallee()
				if callee == nil || !u.canInlineLeaf(callee) {
					return false
				}
			case *ssa.Go, *ssa.Defer, *ssa.Select, *ssa.Send, *ssa.MapUpdate, *ssa.Store:
				return false
			}
		}
	}
	return true
}

func (u *Unit) canInlineLeaf(fn *ssa.Function) bool {
	if len(fn.Blocks) == 0 {
		return false
	}
	n := 0
	for _, b := range fn.Blocks {
		n += len(b.Instrs)
		for _, s := range b.Succs {
			if s.Dominates(b) {
				return false
			}
		}
		for _, in := range b.Instrs {
			switch x := in.(type) {
			case *ssa.Call:
				callee := x.Common().StaticCallee()
				if callee == nil || callee == fn || len(callee.Blocks) == 0 || len(callee.Blocks) > 6 {
					return false
				}
			case *ssa.Go, *ssa.Defer, *ssa.Select, *ssa.Send, *ssa.MapUpdate, *ssa.Store:
				return false
			}
		}
	}
	return n <= 40
}

func (fr *Frame) inlineCall(fn *ssa.Function, args []Term, binds []Term, st *State, site ssa.Instruction, argVals []ssa.Value) ([]Term, *State) {
	u := fr.u
	child := &Frame{u: u, fn: fn, key: funcKey(fn), regs: map[ssa.Value]Term{}, tuples: map[ssa.Value][]Term{}, depth: fr.depth + 1,
		parent: fr, argVals: argVals, site: site, guardedVals: map[ssa.Value]guardedVal{}}
	child.contract = u.cs.ByKey[child.key]
	for i, p := range fn.Params {
		if i < len(args) {
			child.regs[p] = args[i]
		} else {
			child.regs[p] = u.fresh("arg", u.w.sortOf(p.Type()))
		}
	}
	for i, fv := range fn.FreeVars {
		if i < len(binds) {
			child.regs[fv] = binds[i]
		} else {
			child.regs[fv] = u.fresh("fv", u.w.sortOf(fv.Type()))
		}
	}
	u.inlined[child.key]++
	u.inlineStack = append(u.inlineStack, fn)
	in := st.clone()
	in.defers = append(in.defers, nil)
	// the callee has its own local naming environment
	savedEnv := in.env
	in.env = map[string]envEntry{}
	child.entry = in.clone()
	exits := child.run(in)
	u.inlineStack = u.inlineStack[:len(u.inlineStack)-1]
	if len(exits) == 0 {
		return nil, nil
	}
	var inc []inEdge
	for _, e := range exits {
		e.st.defers = e.st.defers[:len(e.st.defers)-1]
		e.st.env = savedEnv
		inc = append(inc, inEdge{nil, e.st, nil})
	}
	var out *State
	if len(inc) == 1 {
		out = inc[0].st
	} else {
		out = fr.mergeStates(inc)
	}
	nres := fn.Signature.Results().Len()
	res := make([]Term, nres)
	for i := 0; i < nres; i++ {
		var t Term
		for k := len(exits) - 1; k >= 0; k-- {
			v := exits[k].results[i]
			if k == len(exits)-1 {
				t = v
			} else {
				t = Ite(exits[k].st.pc, v, t)
			}
		}
		res[i] = u.define(child.fn.Name()+".ret", t)
	}
	return res, out
}

// callDynamic: call through a function value; candidates are the closures created in this unit.
func (fr *Frame) callDynamic(fv Term, c *ssa.CallCommon, args []Term, st *State, site ssa.Instruction) ([]Term, *State) {
	u := fr.u
	pos := site.Pos()
	u.oblige(fr, "nil-deref", pos, fr.srcText(pos, "call of nil function"), st.pc, Neq(fv, NilLoc), false)
	sig := c.Signature()
	if p, isParam := c.Value.(*ssa.Parameter); isParam && fr.isRoot && fr.contract != nil && fr.contract.Callbacks != nil {
		if cb := fr.contract.Callbacks[p.Name()]; cb != nil {
			// the contract promises its callers facts about the state in which the callback runs: check them here
			names := fr.baseNames(st)
			for i, a := range args {
				if i < sig.Params().Len() {
					names[fmt.Sprintf("arg%d", i)] = tval{t: a, ty: sig.Params().At(i).Type()}
				}
			}
			listedGhost := map[string]bool{}
			for _, g := range ghostModifies(fr.contract.Modifies) {
				listedGhost[g] = true
			}
			for _, cl := range cb.Invariants {
				// `callback P assume G == EXPR` for a ghost G that this contract lists in modifies is a ghost assignment
				// performed by this function just before it invokes the callback (it defines G for the callback)
				if e := cl.E; e != nil && e.Op == "bin" && e.Name == "==" && len(e.Args) == 2 && e.Args[0].Op == "id" && listedGhost[e.Args[0].Name] {
					if cur, ok := st.ghost[e.Args[0].Name]; ok {
						ctx := fr.newEvalCtx(st, fr.entry, names)
						if v, err := ctx.eval(e.Args[1]); err == nil && v.t.Sort == cur.Sort {
							st = st.clone()
							g2 := map[string]Term{}
							for k, t := range st.ghost {
								g2[k] = t
							}
							g2[e.Args[0].Name] = u.define("gset!"+e.Args[0].Name, v.t)
							st.ghost = g2
							continue
						}
					}
				}
				ctx := fr.newEvalCtx(st, fr.entry, names)
				v, err := ctx.eval(cl.E)
				if err != nil || v.t.Sort != SBool {
					u.bindErrors = append(u.bindErrors, fmt.Sprintf("%s callback %s assume %q: %v", fr.key, p.Name(), cl.Text, err))
					continue
				}
				u.oblige(fr, "cb-assume", pos, fmt.Sprintf("callback %s is invoked in a state satisfying %s", p.Name(), cl.Text), st.pc, v.t, false)
			}
			if cb.Stops && sig.Results().Len() == 1 {
				// iterator protocol: no further invocation after the callback returned false
				gname := "stopped_" + p.Name()
				stopped, has := st.ghost[gname]
				if !has {
					stopped = False
				}
				u.oblige(fr, "cb-stop", pos, fmt.Sprintf("callback %s is not invoked again after it returned false", p.Name()), st.pc, Not(stopped), false)
				res, out := fr.unknownCallKeepGhost(fr.srcText(pos, "callback"), sig.Results(), st, pos)
				if out != nil && len(res) == 1 && res[0].Sort == SBool {
					out.ghost[gname] = u.define("stopped", Or(stopped, Not(res[0])))
				}
				return res, out
			}
		}
	}
	if fk, ok := u.fieldFnTerms[fv.S]; ok {
		if ct := u.cs.ByKey[fk]; ct != nil {
			// call through a function-typed field that has a `funcfield` contract
			ct.Used = true
			return fr.applyContract(ct, fk, sig, nil, args, nil, st, pos, nil)
		}
	}
	if key, ok := u.pureFnTerms[fv.S]; ok {
		// declared "typeinv purefunc": injected callback without effect on emulator state (listed assumption)
		u.typeInvUsed[key+"()"]++
		return fr.freshResults(sig.Results(), st, "purefn"), st
	}
	leaves, leavesComplete := fr.funcLeaves(c.Value, 0)
	inLeaves := func(mc *ssa.MakeClosure) bool {
		if !leavesComplete {
			return true
		}
		for _, l := range leaves {
			if l == ssa.Value(mc) {
				return true
			}
		}
		return false
	}
	var cands []*closureSite
	for _, cs := range u.closureSites {
		if types.Identical(cs.fn.Signature, sig) && u.canInline(cs.fn, true) && inLeaves(cs.mc) {
			cands = append(cands, cs)
		}
	}
	fnid := Select(u.heap(st, "ClosFn", SInt), fv, SInt)
	type branch struct {
		st  *State
		res []Term
	}
	var branches []branch
	var notAny []Term
	for _, cs := range cands {
		// closure values are allocated objects; plain functions used as values are static locations (negative object
		// ids) whose ClosFn entry is meaningless
		cond := And(Gt(Obj(fv), IntLit(0)), Eq(fnid, IntLit(int64(cs.id))))
		notAny = append(notAny, Not(cond))
		bs := st.clone()
		bs.pc = u.define("pc", And(st.pc, cond))
		var binds []Term
		for k, fvv := range cs.fn.FreeVars {
			key := fmt.Sprintf("CB:%d:%d", cs.id, k)
			vs := u.w.sortOf(fvv.Type())
			binds = append(binds, Select(u.heap(st, key, vs), fv, vs))
		}
		res, out := fr.inlineCall(cs.fn, args, binds, bs, site, nil)
		if out != nil {
			branches = append(branches, branch{out, res})
		}
	}
	// plain functions used as values in this unit (e.g. a capture-free func literal stored in a local variable)
	for _, ft := range u.fnConstOrder {
		f := u.fnConsts[ft.S]
		if f == nil || !types.Identical(f.Signature, sig) || len(f.FreeVars) > 0 || !u.canInline(f, true) {
			continue
		}
		if leavesComplete {
			found := false
			for _, l := range leaves {
				if l == ssa.Value(f) {
					found = true
				}
			}
			if !found {
				continue
			}
		}
		cond := Eq(fv, ft)
		notAny = append(notAny, Not(cond))
		bs := st.clone()
		bs.pc = u.define("pc", And(st.pc, cond))
		res, out := fr.inlineCall(f, args, nil, bs, site, nil)
		if out != nil {
			branches = append(branches, branch{out, res})
		}
		cands = append(cands, nil)
	}
	if (leavesComplete || fr.completeCandidates(c.Value)) && len(branches) > 0 {
		// the function value is read from a local variable that only ever holds known closures/functions
		if len(branches) == 1 {
			return branches[0].res, branches[0].st
		}
		var inc []inEdge
		for _, b := range branches {
			inc = append(inc, inEdge{nil, b.st, nil})
		}
		merged := fr.mergeStates(inc)
		n := sig.Results().Len()
		outRes := make([]Term, n)
		for i := 0; i < n; i++ {
			var t Term
			for k := len(branches) - 1; k >= 0; k-- {
				if k == len(branches)-1 {
					t = branches[k].res[i]
				} else {
					t = Ite(branches[k].st.pc, branches[k].res[i], t)
				}
			}
			outRes[i] = u.define("dyn.ret", t)
		}
		return outRes, merged
	}
	// the function value may be none of the known closures
	other := st.clone()
	other.pc = u.define("pc", And(append([]Term{st.pc}, notAny...)...))
	res, out := fr.unknownCall("dynamic call "+fr.srcText(pos, "func value"), sig.Results(), other, pos)
	if len(cands) > 0 {
		u.note("dynamic call in %s resolved against %d closure(s) of this unit plus an unknown target", fr.key, len(cands))
	}
	branches = append(branches, branch{out, res})
	if len(branches) == 1 {
		return branches[0].res, branches[0].st
	}
	var inc []inEdge
	for _, b := range branches {
		inc = append(inc, inEdge{nil, b.st, nil})
	}
	merged := fr.mergeStates(inc)
	n := sig.Results().Len()
	outRes := make([]Term, n)
	for i := 0; i < n; i++ {
		var t Term
		for k := len(branches) - 1; k >= 0; k-- {
			if k == len(branches)-1 {
				t = branches[k].res[i]
			} else {
				t = Ite(branches[k].st.pc, branches[k].res[i], t)
			}
		}
		outRes[i] = u.define("dyn.ret", t)
	}
	return outRes, merged
}

func (fr *Frame) execMakeClosure(x *ssa.MakeClosure, st *State) *State {
	u := fr.u
	fn := x.Fn.(*ssa.Function)
	var site *closureSite
	for _, cs := range u.closureSites {
		if cs.mc == x {
			site = cs
		}
	}
	if site == nil {
		site = &closureSite{id: len(u.closureSites) + 1, fn: fn, mc: x}
		u.closureSites = append(u.closureSites, site)
	}
	o := fr.newObject(st)
	a := MkLoc(o, IntLit(0))
	h := u.heap(st, "ClosFn", SInt)
	u.setHeap(st, "ClosFn", Store(h, a, IntLit(int64(site.id))))
	for k, b := range x.Bindings {
		key := fmt.Sprintf("CB:%d:%d", site.id, k)
		vs := u.w.sortOf(b.Type())
		hb := u.heap(st, key, vs)
		u.setHeap(st, key, Store(hb, a, fr.val(b)))
	}
	fr.setReg(x, a)
	var binds []Term
	for _, b := range x.Bindings {
		binds = append(binds, fr.val(b))
	}
	u.closureTerms[fr.regs[x].S] = &closureVal{fn: fn, binds: binds, mc: x, frame: fr}
	return st
}

func (fr *Frame) runDefers(st *State) *State {
	top := len(st.defers) - 1
	ds := st.defers[top]
	st.defers[top] = nil
	for i := len(ds) - 1; i >= 0; i-- {
		d := ds[i]
		if d.active.S != "" && d.active.S != "true" {
			// conditional defer: run it only on the paths that executed the defer statement
			on := st.clone()
			on.pc = fr.u.define("pc", And(st.pc, d.active))
			off := st.clone()
			off.pc = fr.u.define("pc", And(st.pc, Not(d.active)))
			_, on2 := fr.doCall(d.call, d.site, on, d.args, d.fnv)
			if on2 == nil {
				st = off
			} else {
				st = fr.mergeStates([]inEdge{{nil, on2, nil}, {nil, off, nil}})
			}
			continue
		}
		_, st2 := fr.doCall(d.call, d.site, st, d.args, d.fnv)
		if st2 == nil {
			return nil
		}
		st = st2
	}
	return st
}

// ---- builtins ----

func (fr *Frame) execBuiltin(b *ssa.Builtin, c *ssa.CallCommon, args []Term, st *State, pos token.Pos) ([]Term, *State) {
	u := fr.u
	w := u.w
	switch b.Name() {
	case "len":
		x := args[0]
		switch x.Sort {
		case SSlice:
			return []Term{SLen(x)}, st
		case SBytes:
			return []Term{StrLen(BStr(x))}, st
		case SStr:
			return []Term{StrLen(x)}, st
		case SLoc:
			if mt, ok := c.Args[0].Type().Underlying().(*types.Map); ok {
				return []Term{fr.mapLen(st, mt, x)}, st
			}
		}
		r := u.fresh("len", SInt)
		u.assume(True, Ge(r, IntLit(0)))
		return []Term{r}, st
	case "cap":
		x := args[0]
		if x.Sort == SSlice {
			return []Term{SCap(x)}, st
		}
		r := u.fresh("cap", SInt)
		u.assume(True, Ge(r, IntLit(0)))
		if x.Sort == SBytes {
			u.assume(True, Ge(r, StrLen(BStr(x))))
		}
		return []Term{r}, st
	case "append":
		return fr.execAppend(c, args, st, pos)
	case "copy":
		return fr.execCopy(c, args, st, pos)
	case "delete":
		mt := c.Args[0].Type().Underlying().(*types.Map)
		fr.checkGuardedMapOp(c.Args[0], true, st, pos)
		st = st.clone()
		fr.mapSet(st, mt, args[0], args[1], Term{}, false)
		return nil, st
	case "min", "max":
		r := args[0]
		for _, a := range args[1:] {
			if b.Name() == "min" {
				r = Ite(Le(a, r), a, r)
			} else {
				r = Ite(Ge(a, r), a, r)
			}
		}
		return []Term{r}, st
	case "close", "print", "println", "clear":
		return nil, st
	case "panic":
		u.oblige(fr, "explicit-panic", pos, fr.srcText(pos, "panic"), st.pc, False, false)
		return nil, nil
	case "recover":
		return []Term{NilIface}, st
	case "new":
		o := fr.newObject(st)
		return []Term{MkLoc(o, IntLit(0))}, st
	}
	u.note("builtin %s in %s not modelled", b.Name(), fr.key)
	if c.Signature() != nil {
		return fr.freshResults(c.Signature().Results(), st, "builtin"), st
	}
	_ = w
	return nil, st
}

func (fr *Frame) execAppend(c *ssa.CallCommon, args []Term, st *State, pos token.Pos) ([]Term, *State) {
	u := fr.u
	w := u.w
	s, t := args[0], args[1]
	if s.Sort == SBytes {
		// value semantics
		ts := t
		if ts.Sort == SBytes {
			ts = BStr(ts)
		}
		r := u.define("app", StrCat(BStr(s), ts))
		u.features["strcat"] = true
		// append(nil, empty...) stays nil
		return []Term{MkBytes(And(BIsNil(s), Eq(StrLen(ts), IntLit(0))), r)}, st
	}
	et := c.Args[0].Type().Underlying().(*types.Slice).Elem()
	vs := w.sortOf(et)
	if isComposite(et) {
		return fr.appendComposite(c, et, s, t, st, pos)
	}
	key := w.typeHeapKey(et)
	st = st.clone()
	h := u.heap(st, key, vs)
	n := SLen(t)
	// appended elements are the elements of t (a slice, usually the varargs array)
	newLen := u.define("applen", Add(SLen(s), n))
	fits := u.define("appfits", Le(newLen, SCap(s)))
	// in place
	o := fr.newObject(st)
	nb := MkLoc(o, IntLit(0))
	ncap := u.fresh("appcap", SInt)
	u.assume(True, Ge(ncap, newLen))
	base := u.define("appbase", Ite(fits, SPtr(s), nb))
	res := u.define("appres", MkSlice(base, newLen, Ite(fits, SCap(s), ncap)))
	h2 := u.fresh("Ha!"+key, ArraySort(SLoc, vs))
	l := Sym("l!", SLoc)
	i := Sym("i!", SInt)
	// 1. old elements are where they were (in place) or copied (fresh); stated per case so that triggers are ite-free
	for _, cs := range []struct {
		g Term
		b Term
	}{{fits, SPtr(s)}, {Not(fits), nb}} {
		g := And(st.pc, cs.g)
		u.assume(g, Forall([]Term{i}, Implies(And(Le(IntLit(0), i), Lt(i, SLen(s))),
			Eq(Select(h2, Elem(cs.b, i), vs), Select(h, Elem(SPtr(s), i), vs))),
			[]Term{Select(h2, Elem(cs.b, i), vs)}))
		// 2. new elements
		if k, ok := smallVarargs(c); ok {
			for j := 0; j < k; j++ {
				u.assume(g, Eq(Select(h2, Elem(cs.b, Add(SLen(s), IntLit(int64(j)))), vs), Select(h, Elem(SPtr(t), IntLit(int64(j))), vs)))
			}
		} else {
			u.assume(g, Forall([]Term{i}, Implies(And(Le(IntLit(0), i), Lt(i, n)),
				Eq(Select(h2, Elem(cs.b, Add(SLen(s), i)), vs), Select(h, Elem(SPtr(t), i), vs))),
				[]Term{Select(h, Elem(SPtr(t), i), vs)}))
		}
	}
	// 3. frame: every other cell is unchanged
	inNew := And(Eq(Obj(l), Obj(base)), Le(Add(Off(base), SLen(s)), Off(l)), Lt(Off(l), Add(Off(base), newLen)))
	u.assume(st.pc, Forall([]Term{l}, Implies(And(Not(inNew), Or(fits, Neq(Obj(l), o))), Eq(Select(h2, l, vs), Select(h, l, vs))),
		[]Term{Select(h2, l, vs)}))
	u.recordWriteTerm(fr, key, base, c.Args[0])
	st.heaps[key] = h2
	return []Term{res}, st
}

func (fr *Frame) appendComposite(c *ssa.CallCommon, et types.Type, s, t Term, st *State, pos token.Pos) ([]Term, *State) {
	// slices of structs (e.g. []simpleRange, []item): model append with unknown placement: the result is a fresh
	// or in-place slice whose old elements are preserved and new ones copied, per leaf field heap.
	u := fr.u
	w := u.w
	sz := int64(w.sizeOf(et))
	stt := et.Underlying().(*types.Struct)
	st = st.clone()
	n := SLen(t)
	newLen := u.define("applen", Add(SLen(s), n))
	fits := u.define("appfits", Le(newLen, SCap(s)))
	o := fr.newObject(st)
	nb := MkLoc(o, IntLit(0))
	ncap := u.fresh("appcap", SInt)
	u.assume(True, Ge(ncap, newLen))
	base := u.define("appbase", Ite(fits, SPtr(s), nb))
	res := u.define("appres", MkSlice(base, newLen, Ite(fits, SCap(s), ncap)))
	elemAddr := func(b Term, idx Term) Term { return ElemS(b, idx, sz) }
	i := Sym("i!", SInt)
	l := Sym("l!", SLoc)
	for f := 0; f < stt.NumFields(); f++ {
		ft := stt.Field(f).Type()
		if isComposite(ft) {
			u.note("append of structs with nested composite fields in %s not modelled precisely", fr.key)
			continue
		}
		// cells for field f of element at address a
		cellFor := func(a Term) cell { return fr.fieldCell(et, a, f) }
		c0 := cellFor(NilLoc)
		vs := w.sortOf(ft)
		h := u.heap(st, c0.key, vs)
		h2 := u.fresh("Ha!"+c0.key, ArraySort(SLoc, vs))
		u.assume(st.pc, Forall([]Term{i}, Implies(And(Le(IntLit(0), i), Lt(i, SLen(s))),
			Eq(Select(h2, cellFor(elemAddr(base, i)).idx, vs), Select(h, cellFor(elemAddr(SPtr(s), i)).idx, vs)))))
		u.assume(st.pc, Forall([]Term{i}, Implies(And(Le(IntLit(0), i), Lt(i, n)),
			Eq(Select(h2, cellFor(elemAddr(base, Add(SLen(s), i))).idx, vs), Select(h, cellFor(elemAddr(SPtr(t), i)).idx, vs)))))
		// frame: other objects unchanged; within the object, cells below the old length unchanged
		u.assume(st.pc, Forall([]Term{l}, Implies(Neq(Obj(l), Obj(base)), Eq(Select(h2, l, vs), Select(h, l, vs))), []Term{Select(h2, l, vs)}))
		u.assume(st.pc, Implies(fits, Forall([]Term{l}, Implies(And(Eq(Obj(l), Obj(base)), Lt(Off(l), Add(Off(base), Mul(SLen(s), IntLit(sz))))), Eq(Select(h2, l, vs), Select(h, l, vs))), []Term{Select(h2, l, vs)})))
		u.recordWriteTerm(fr, c0.key, base, c.Args[0])
		st.heaps[c0.key] = h2
	}
	return []Term{res}, st
}

func (fr *Frame) execCopy(c *ssa.CallCommon, args []Term, st *State, pos token.Pos) ([]Term, *State) {
	u := fr.u
	w := u.w
	dst, src := args[0], args[1]
	if dst.Sort == SBytes {
		u.note("copy into []byte in %s: []byte is an immutable value in the model (outside the subset)", fr.key)
		u.outsideSubset = append(u.outsideSubset, "copy into []byte")
		r := u.fresh("copyn", SInt)
		return []Term{r}, st
	}
	et := c.Args[0].Type().Underlying().(*types.Slice).Elem()
	if isComposite(et) {
		u.note("copy of composite elements in %s not modelled", fr.key)
		return fr.unknownCall("copy(composite)", c.Signature().Results(), st, pos)
	}
	vs := w.sortOf(et)
	key := w.typeHeapKey(et)
	st = st.clone()
	h := u.heap(st, key, vs)
	n := u.define("copyn", Ite(Le(SLen(dst), SLen(src)), SLen(dst), SLen(src)))
	h2 := u.fresh("Hcp!"+key, ArraySort(SLoc, vs))
	i := Sym("i!", SInt)
	l := Sym("l!", SLoc)
	at := func(s Term, idx Term) Term { return Elem(SPtr(s), idx) }
	u.assume(st.pc, Forall([]Term{i}, Implies(And(Le(IntLit(0), i), Lt(i, n)), Eq(Select(h2, at(dst, i), vs), Select(h, at(src, i), vs))), []Term{Select(h2, at(dst, i), vs)}))
	// the same fact indexed from the bases of the sliced operands (copy(s[a:], t[b:])): quantified facts about the
	// elements of s and t are stated (and triggered) on elem(sptr s, k), not on elem(elem(sptr s, a), i)
	decompose := func(v ssa.Value, whole Term) (base Term, off Term) {
		if sl, ok := v.(*ssa.Slice); ok && sl.Max == nil {
			if _, isSlice := sl.X.Type().Underlying().(*types.Slice); isSlice {
				lo := IntLit(0)
				if sl.Low != nil {
					lo = fr.val(sl.Low)
				}
				return SPtr(fr.val(sl.X)), lo
			}
		}
		return SPtr(whole), IntLit(0)
	}
	if len(c.Args) == 2 {
		pB, a := decompose(c.Args[0], dst)
		qB, b := decompose(c.Args[1], src)
		if a.S != "0" || b.S != "0" {
			k := Sym("k!", SInt)
			u.assume(st.pc, Forall([]Term{k}, Implies(And(Le(a, k), Lt(k, Add(a, n))),
				Eq(Select(h2, Elem(pB, k), vs), Select(h, Elem(qB, Add(b, Sub(k, a))), vs))), []Term{Select(h2, Elem(pB, k), vs)}))
		}
	}
	inDst := And(Eq(Obj(l), Obj(SPtr(dst))), Le(Off(SPtr(dst)), Off(l)), Lt(Off(l), Add(Off(SPtr(dst)), n)))
	u.assume(st.pc, Forall([]Term{l}, Implies(Not(inDst), Eq(Select(h2, l, vs), Select(h, l, vs))), []Term{Select(h2, l, vs)}))
	u.recordWriteTerm(fr, key, SPtr(dst), c.Args[0])
	st.heaps[key] = h2
	return []Term{n}, st
}

// ---- maps ----

func (fr *Frame) mapKeys(mt *types.Map) (dk, vk string, ks, vs Sort) {
	w := fr.u.w
	ks = w.sortOf(mt.Key())
	vs = w.sortOf(mt.Elem())
	name := shortTypeKey(mt)
	dk, vk = "Md:"+name, "Mv:"+name
	w.heapSort(dk, ArraySort(ks, SBool))
	w.heapSort(vk, ArraySort(ks, vs))
	return
}

func (fr *Frame) mapArrays(st *State, mt *types.Map, m Term) (dom, val Term) {
	u := fr.u
	dk, vk, ks, vs := fr.mapKeys(mt)
	dom = Select(u.heap(st, dk, ArraySort(ks, SBool)), m, ArraySort(ks, SBool))
	val = Select(u.heap(st, vk, ArraySort(ks, vs)), m, ArraySort(ks, vs))
	return
}

func (fr *Frame) mapInit(st *State, mt *types.Map, m Term) {
	u := fr.u
	dk, _, ks, _ := fr.mapKeys(mt)
	h := u.heap(st, dk, ArraySort(ks, SBool))
	empty := Term{fmt.Sprintf("((as const %s) false)", ArraySort(ks, SBool)), ArraySort(ks, SBool)}
	u.setHeap(st, dk, Store(h, m, empty))
}

func (fr *Frame) mapSet(st *State, mt *types.Map, m, k, v Term, present bool) {
	u := fr.u
	dk, vk, ks, vs := fr.mapKeys(mt)
	hd := u.heap(st, dk, ArraySort(ks, SBool))
	dom := Select(hd, m, ArraySort(ks, SBool))
	u.recordWriteTerm(fr, dk, m, nil)
	u.setHeap(st, dk, u.define("Md", Store(hd, m, Store(dom, k, BoolLit(present)))))
	if present {
		hv := u.heap(st, vk, ArraySort(ks, vs))
		val := Select(hv, m, ArraySort(ks, vs))
		u.recordWriteTerm(fr, vk, m, nil)
		u.setHeap(st, vk, u.define("Mv", Store(hv, m, Store(val, k, v))))
	}
}

func (fr *Frame) mapLen(st *State, mt *types.Map, m Term) Term {
	u := fr.u
	dom, _ := fr.mapArrays(st, mt, m)
	name := quoteSym("maplen:" + shortTypeKey(mt))
	_, _, ks, _ := fr.mapKeys(mt)
	u.declareFun(name, []string{string(ArraySort(ks, SBool))}, SInt)
	r := mk(SInt, name, dom)
	u.assume(True, Ge(r, IntLit(0)))
	empty := Term{fmt.Sprintf("((as const %s) false)", ArraySort(ks, SBool)), ArraySort(ks, SBool)}
	u.assume(True, Eq(mk(SInt, name, empty), IntLit(0)))
	return Ite(Eq(m, NilLoc), IntLit(0), r)
}

func (fr *Frame) execLookup(x *ssa.Lookup, st *State) *State {
	u := fr.u
	w := u.w
	xv, kv := fr.val(x.X), fr.val(x.Index)
	mt, ok := x.X.Type().Underlying().(*types.Map)
	if !ok {
		// string index
		u.oblige(fr, "index", x.Pos(), fr.srcText(x.Pos(), "index"), st.pc, And(Le(IntLit(0), kv), Lt(kv, StrLen(xv))), false)
		r := StrAt(xv, kv)
		u.assume(True, And(Le(IntLit(0), r), Le(r, IntLit(255))))
		fr.setReg(x, r)
		return st
	}
	fr.checkGuardedMapOp(x.X, false, st, x.Pos())
	dom, val := fr.mapArrays(st, mt, xv)
	vs := w.sortOf(mt.Elem())
	present := u.define(fr.vname(x)+".ok", And(Neq(xv, NilLoc), Select(dom, kv, SBool)))
	v := u.define(fr.vname(x), Ite(present, Select(val, kv, vs), w.zero(mt.Elem())))
	fr.assumeTypeInv(st, v, mt.Elem())
	// references stored in a map are allocated
	switch v.Sort {
	case SLoc:
		u.assume(True, And(Le(Obj(v), st.alloc), Ge(Off(v), IntLit(0))))
	case SSlice:
		u.assume(True, And(Le(Obj(SPtr(v)), st.alloc), Le(IntLit(0), SLen(v)), Le(SLen(v), SCap(v))))
	case SIface:
		u.assume(True, Le(Obj(IVal(v)), st.alloc))
	}
	if key, ok := u.termOrigin[xv.S]; ok && v.Sort == SLoc {
		u.assume(True, Implies(present, Neq(v, NilLoc)))
		u.typeInvUsed[key+"{}"]++
	}
	if x.CommaOk {
		fr.tuples[x] = []Term{v, present}
	} else {
		fr.regs[x] = v
	}
	return st
}

func (fr *Frame) execMapUpdate(x *ssa.MapUpdate, st *State) *State {
	u := fr.u
	m := fr.val(x.Map)
	mt := x.Map.Type().Underlying().(*types.Map)
	u.oblige(fr, "nil-map-write", x.Pos(), fr.srcText(x.Pos(), "map update"), st.pc, Neq(m, NilLoc), false)
	if key, ok := u.termOrigin[m.S]; ok {
		if v := fr.val(x.Value); v.Sort == SLoc {
			u.oblige(fr, "typeinv", x.Pos(), "values stored in "+key+" are non-nil", st.pc, Neq(v, NilLoc), false)
		}
	}
	fr.checkGuardedMapOp(x.Map, true, st, x.Pos())
	fr.mapSet(st, mt, m, fr.val(x.Key), fr.val(x.Value), true)
	return st
}

func (fr *Frame) execRange(x *ssa.Range, st *State) *State {
	if _, ok := x.X.Type().Underlying().(*types.Map); ok {
		fr.checkGuardedMapOp(x.X, false, st, x.Pos())
	}
	fr.regs[x] = fr.val(x.X) // the iterator is identified with the collection
	if mt, ok := x.X.Type().Underlying().(*types.Map); ok {
		// ghost set of keys already delivered by this iteration: "visitedN" (N = ordinal of the range loop)
		if name := fr.visitedName(x); name != "" {
			ks := fr.u.w.sortOf(mt.Key())
			st.ghost[name] = Term{fmt.Sprintf("((as const %s) false)", ArraySort(ks, SBool)), ArraySort(ks, SBool)}
		}
	}
	return st
}

// visitedName: ghost name of the visited-set of a map range loop ("visitedN", N = loop ordinal), "" if unknown.
func (fr *Frame) visitedName(rng *ssa.Range) string {
	refs := rng.Referrers()
	if refs == nil {
		return ""
	}
	for _, r := range *refs {
		if nx, ok := r.(*ssa.Next); ok {
			if ord, ok := fr.loopOrd[nx.Block()]; ok {
				return fmt.Sprintf("visited%d", ord)
			}
		}
	}
	return ""
}

func (fr *Frame) execNext(x *ssa.Next, st *State) *State {
	u := fr.u
	w := u.w
	tup := x.Type().(*types.Tuple)
	ok := u.fresh(fr.vname(x)+".ok", SBool)
	rng, _ := x.Iter.(*ssa.Range)
	if x.IsString || rng == nil {
		k := u.fresh(fr.vname(x)+".k", SInt)
		v := u.fresh(fr.vname(x)+".v", SInt)
		fr.tuples[x] = []Term{ok, k, v}
		return st
	}
	mt := rng.X.Type().Underlying().(*types.Map)
	m := fr.val(rng.X)
	fr.checkGuardedMapOp(rng.X, false, st, x.Pos())
	dom, val := fr.mapArrays(st, mt, m)
	k := u.fresh(fr.vname(x)+".k", w.sortOf(mt.Key()))
	vs := w.sortOf(mt.Elem())
	u.assume(True, Implies(ok, And(Neq(m, NilLoc), Select(dom, k, SBool))))
	if name := fr.visitedName(rng); name != "" {
		if vis, has := st.ghost[name]; has {
			// each key is delivered at most once; when the iteration ends every key of the map has been delivered
			u.assume(True, Implies(ok, Not(Select(vis, k, SBool))))
			kq := Sym("k!v", w.sortOf(mt.Key()))
			u.assume(True, Implies(And(st.pc, Not(ok), Neq(m, NilLoc)), Forall([]Term{kq}, Implies(Select(dom, kq, SBool), Select(vis, kq, SBool)))))
			st.ghost[name] = u.define("vis", Ite(ok, Store(vis, k, True), vis))
		}
	}
	v := Select(val, k, vs)
	_ = tup
	vv := u.define(fr.vname(x)+".v", v)
	fr.assumeTypeInv(st, vv, mt.Elem())
	if key, ok2 := u.termOrigin[m.S]; ok2 && vv.Sort == SLoc {
		u.assume(True, Implies(ok, Neq(vv, NilLoc)))
		u.typeInvUsed[key+"{}"]++
	}
	fr.tuples[x] = []Term{ok, k, vv}
	return st
}

// smallVarargs: append(s, a, b, ...) passes its elements in a fresh array of known small length.
func smallVarargs(c *ssa.CallCommon) (int, bool) {
	if len(c.Args) < 2 {
		return 0, false
	}
	sl, ok := c.Args[1].(*ssa.Slice)
	if !ok {
		return 0, false
	}
	al, ok := sl.X.(*ssa.Alloc)
	if !ok {
		return 0, false
	}
	at, ok := derefType(al.Type()).Underlying().(*types.Array)
	if !ok || at.Len() > 4 || sl.Low != nil || sl.High != nil {
		return 0, false
	}
	return int(at.Len()), true
}

// completeCandidates: v is loaded from a non-escaping local variable all of whose assignments store closures or
// plain functions created in this function, so a dynamic call through it can only reach those.
func (fr *Frame) completeCandidates(v ssa.Value) bool {
	ld, ok := v.(*ssa.UnOp)
	if !ok || ld.Op != token.MUL {
		return false
	}
	var al *ssa.Alloc
	switch x := ld.X.(type) {
	case *ssa.Alloc:
		al = x
	case *ssa.FreeVar:
		// captured variable of an enclosing function: the Alloc bound at the (only) MakeClosure of this function
		al = staticBindingAlloc(x, 0)
	}
	if al == nil || fr.u.allocEscapes(al) {
		return false
	}
	return storesOnlyFuncs(al, 0)
}

func storesOnlyFuncs(al *ssa.Alloc, depth int) bool {
	refs := al.Referrers()
	if refs == nil {
		return false
	}
	n := 0
	for _, r := range *refs {
		st, ok := r.(*ssa.Store)
		if !ok || st.Addr != al {
			continue
		}
		switch st.Val.(type) {
		case *ssa.MakeClosure, *ssa.Function:
			n++
		default:
			return false
		}
	}
	return n > 0
}

// funcLeaves: if v is (a phi of) closures / plain functions created in this function, or a load from a
// non-escaping local variable that only ever holds such values, return them; complete=false otherwise.
func (fr *Frame) funcLeaves(v ssa.Value, depth int) ([]ssa.Value, bool) {
	if depth > 5 {
		return nil, false
	}
	switch x := v.(type) {
	case *ssa.MakeClosure:
		return []ssa.Value{x}, true
	case *ssa.Function:
		return []ssa.Value{x}, true
	case *ssa.Phi:
		var out []ssa.Value
		for _, e := range x.Edges {
			l, ok := fr.funcLeaves(e, depth+1)
			if !ok {
				return nil, false
			}
			out = append(out, l...)
		}
		return out, true
	case *ssa.UnOp:
		if x.Op != token.MUL {
			return nil, false
		}
		al, ok := x.X.(*ssa.Alloc)
		if !ok {
			if fv, isFV := x.X.(*ssa.FreeVar); isFV {
				al = staticBindingAlloc(fv, 0)
				ok = al != nil
			}
		}
		if !ok || fr.u.allocEscapes(al) {
			return nil, false
		}
		refs := al.Referrers()
		if refs == nil {
			return nil, false
		}
		var out []ssa.Value
		for _, r := range *refs {
			st, ok := r.(*ssa.Store)
			if !ok || st.Addr != al {
				continue
			}
			l, ok := fr.funcLeaves(st.Val, depth+1)
			if !ok {
				return nil, false
			}
			out = append(out, l...)
		}
		return out, len(out) > 0
	}
	return nil, false
}

// readOnlyLibPkgs: library packages whose functions never write through their arguments (formatting, parsing of
// values, pure computations). Functions of the other assumed-total packages may write through pointer arguments
// (decoders, readers, errors.As ...): the cells their pointer arguments point to are havocked.
var readOnlyLibPkgs = map[string]bool{
	"fmt": true, "log": true, "strconv": true, "strings": true, "bytes": true, "time": true, "math": true, "math/rand": true,
	"path/filepath": true, "path": true, "mime": true, "encoding/base64": true, "crypto/md5": true, "unicode": true, "unicode/utf8": true,
	"regexp": true, "rsc.io/binaryregexp": true, "google.golang.org/grpc/status": true, "google.golang.org/grpc/codes": true,
	"net/url": true, "net/textproto": true, "cloud.google.com/go/bigtable": true, "context": true, "sync/atomic": true,
}

// havocPointerArgs: a library function without contract may write through its pointer arguments: the cells of the
// pointees (two levels: *p and what the pointers stored in *p point to) become unknown; fresh objects may appear.
func (fr *Frame) havocPointerArgs(fn *ssa.Function, args []Term, argVals []ssa.Value, st *State) *State {
	u := fr.u
	type target struct {
		t types.Type
		a Term
	}
	var targets []target
	addPtr := func(t types.Type, a Term) {
		if p, ok := t.Underlying().(*types.Pointer); ok {
			targets = append(targets, target{p.Elem(), a})
		}
	}
	for i, a := range args {
		if i >= len(fn.Params) {
			break
		}
		pt := fn.Params[i].Type()
		if i == 0 && fn.Signature.Recv() != nil {
			continue // the receiver is a library object: its internals are never read by repo code
		}
		switch pt.Underlying().(type) {
		case *types.Pointer:
			addPtr(pt, a)
		case *types.Interface:
			// an interface argument built from a pointer in the caller (json.Decode(&x), errors.As(err, &target))
			if argVals != nil && i < len(argVals) {
				if mi, ok := argVals[i].(*ssa.MakeInterface); ok {
					addPtr(mi.X.Type(), IVal(a))
				}
			}
		}
	}
	// a []byte argument that is a slice of a byte ARRAY of the caller (buf[:], val[2:6]): []byte values are immutable
	// in the model, but the callee may write the array through the slice (binary.BigEndian.PutUint64(val[:], v),
	// io.ReadFull(r, buf[:]) ...): the array's cells become unknown
	for i := range args {
		if argVals == nil || i >= len(argVals) {
			break
		}
		if sl, ok := argVals[i].(*ssa.Slice); ok && isByteSlice(sl.Type()) {
			if pt, ok := sl.X.Type().Underlying().(*types.Pointer); ok {
				if at, ok := pt.Elem().Underlying().(*types.Array); ok {
					targets = append(targets, target{at, fr.val(sl.X)})
				}
			}
		}
	}
	if len(targets) == 0 {
		return st
	}
	post := st.clone()
	al := u.fresh("alloc", SInt)
	u.assume(True, Ge(al, st.alloc))
	post.alloc = al
	post.layer = &heapLayer{prevHeaps: st.heaps, prevEpoch: st.epoch, prevLayer: st.layer, allocOld: st.alloc, allocNew: al}
	post.heaps = map[string]Term{}
	// collect the objects whose cells become unknown, per heap key
	objs := map[string][]Term{}
	sorts := map[string]Sort{}
	var order []string
	add := func(t types.Type, a Term) {
		for _, c := range fr.leafCellsOf(t) {
			if !u.w.sh.repoKeys[c.key] {
				continue // a cell type the repo code never reads or writes
			}
			if _, ok := objs[c.key]; !ok {
				order = append(order, c.key)
			}
			objs[c.key] = append(objs[c.key], Obj(a))
			sorts[c.key] = u.w.sortOf(c.typ)
		}
	}
	for _, tg := range targets {
		add(tg.t, tg.a)
		// second level: pointers stored in *p before the call
		for _, c := range fr.leafCellsAt(tg.t, tg.a) {
			if p, ok := c.typ.Underlying().(*types.Pointer); ok {
				vs := u.w.sortOf(c.typ)
				pv := Select(u.heap(st, c.key, vs), c.idx, vs)
				add(p.Elem(), pv)
			}
		}
	}
	l := Sym("l!", SLoc)
	for _, k := range order {
		vs := sorts[k]
		old := u.heap(st, k, vs)
		h := u.fresh("Hlib!"+k, ArraySort(SLoc, vs))
		var conds []Term
		for _, o := range objs[k] {
			conds = append(conds, Neq(Obj(l), o))
		}
		conds = append(conds, Le(Obj(l), st.alloc))
		u.assume(True, Forall([]Term{l}, Implies(And(conds...), Eq(Select(h, l, vs), Select(old, l, vs))), []Term{Select(h, l, vs)}))
		u.heapWF(h, vs, al)
		post.heaps[k] = h
		u.recordWriteContract(fr, k)
	}
	return post
}

// deterministicLibPkgs: read-only library packages whose functions are functions of their argument values (no
// clock, no randomness, no environment). Results of value sorts (integers, booleans, strings, byte strings) of such
// a call are modelled as an uninterpreted function of the argument values, so two calls with equal arguments agree.
// Results with identity (pointers, errors, slices of non-bytes) stay unconstrained.
var deterministicLibPkgs = map[string]bool{
	"fmt": true, "strconv": true, "strings": true, "bytes": true, "path": true, "encoding/base64": true, "crypto/md5": true,
	"unicode": true, "unicode/utf8": true, "net/url": true, "net/textproto": true, "mime": true,
}

var deterministicLibFuncs = map[string]bool{
	"path/filepath.Join": true, "path/filepath.Base": true, "path/filepath.Dir": true, "path/filepath.Clean": true,
	"path/filepath.Ext": true, "path/filepath.ToSlash": true, "path/filepath.FromSlash": true, "path/filepath.IsAbs": true,
}

func valueSort(s Sort) bool { return s == SInt || s == SBool || s == SStr || s == SBytes }

func (fr *Frame) deterministicLibResults(fn *ssa.Function, args []Term, argVals []ssa.Value, st *State) ([]Term, bool) {
	u := fr.u
	pp := fnPkgPath(fn)
	if !deterministicLibPkgs[pp] && !deterministicLibFuncs[fn.String()] {
		return nil, false
	}
	results := fn.Signature.Results()
	any := false
	for i := 0; i < results.Len(); i++ {
		if valueSort(u.w.sortOf(results.At(i).Type())) {
			any = true
		}
	}
	if !any || len(argVals) != len(args) {
		return nil, false
	}
	var ts []Term
	var dynTypes []string
	for i, a := range args {
		if valueSort(a.Sort) {
			ts = append(ts, a)
			continue
		}
		// a variadic argument array built at this call site: its elements, if they are values
		elems, tys, ok := fr.varargElems(argVals[i])
		if !ok {
			return nil, false
		}
		ts = append(ts, elems...)
		dynTypes = append(dynTypes, tys...)
	}
	var sorts []string
	for _, t := range ts {
		sorts = append(sorts, string(t.Sort))
	}
	sig := strings.Join(sorts, ",")
	if len(dynTypes) > 0 {
		sig += ";" + strings.Join(dynTypes, ",")
	}
	var res []Term
	for i := 0; i < results.Len(); i++ {
		t := results.At(i).Type()
		rs := u.w.sortOf(t)
		if !valueSort(rs) {
			r := u.fresh("lib", rs)
			fr.assumeTypeInv(st, r, t)
			res = append(res, r)
			continue
		}
		name := libFnSymbol(fn.String(), sig, i)
		u.declareFun(name, sorts, rs)
		var r Term
		if len(ts) == 0 {
			r = Term{name, rs}
		} else {
			r = mk(rs, name, ts...)
		}
		r = u.define("libv", r)
		fr.assumeTypeInv(st, r, t)
		res = append(res, r)
	}
	u.note("deterministic library function modelled as an uninterpreted function of its argument values: %s", fn.String())
	return res, true
}

// varargElems: v is `slice t[:]` of a `new [n]T (varargs)` array filled by stores in the same block; returns the
// stored values when each is a value (or a value boxed into an interface).
func (fr *Frame) varargElems(v ssa.Value) ([]Term, []string, bool) {
	if c, ok := v.(*ssa.Const); ok && c.Value == nil {
		return nil, nil, true // nil slice: no variadic arguments
	}
	sl, ok := v.(*ssa.Slice)
	if !ok || sl.Low != nil || sl.High != nil {
		return nil, nil, false
	}
	al, ok := sl.X.(*ssa.Alloc)
	if !ok || al.Comment != "varargs" {
		return nil, nil, false
	}
	arr, ok := al.Type().Underlying().(*types.Pointer).Elem().Underlying().(*types.Array)
	if !ok {
		return nil, nil, false
	}
	out := make([]Term, arr.Len())
	tys := make([]string, arr.Len())
	found := make([]bool, arr.Len())
	for _, ref := range *al.Referrers() {
		ia, ok := ref.(*ssa.IndexAddr)
		if !ok {
			continue
		}
		c, ok := ia.Index.(*ssa.Const)
		if !ok {
			return nil, nil, false
		}
		k := int(c.Int64())
		for _, r2 := range *ia.Referrers() {
			stv, ok := r2.(*ssa.Store)
			if !ok || stv.Addr != ia {
				return nil, nil, false
			}
			val := stv.Val
			if mi, ok := val.(*ssa.MakeInterface); ok {
				val = mi.X
			}
			t := fr.val(val)
			if !valueSort(t.Sort) {
				return nil, nil, false
			}
			if k < 0 || k >= len(out) || found[k] {
				return nil, nil, false
			}
			out[k], found[k] = t, true
			tys[k] = dynTypeTag(val.Type())
		}
	}
	for _, f := range found {
		if !f {
			return nil, nil, false
		}
	}
	return out, tys, true
}

// checkCallSiteAsserts: `callsite CALLEE requires EXPR` / `callsite CALLEE ensures EXPR` clauses of the enclosing
// function's contract (or of the unit's root contract) are assertions before / after every call of CALLEE: EXPR is
// evaluated in the caller's state, with the caller's locals in scope, the call's arguments as arg0, arg1... and (after
// the call) its results as result / result0..; old(...) is the state at function entry. Like any assertion it is an
// obligation first and a known fact afterwards (a cut that keeps the later queries small).
func (fr *Frame) checkCallSiteAsserts(c *ssa.CallCommon, args []Term, preFn Term, evalRecv bool, st *State, pos token.Pos, results []Term, post bool) {
	u := fr.u
	pick := func(ct *Contract) map[string][]Clause {
		if ct == nil {
			return nil
		}
		if post {
			return ct.CallSitesPost
		}
		return ct.CallSites
	}
	var maps []map[string][]Clause
	if m := pick(fr.contract); len(m) > 0 {
		maps = append(maps, m)
	}
	if u.contract != fr.contract {
		if m := pick(u.contract); len(m) > 0 {
			maps = append(maps, m)
		}
	}
	if len(maps) == 0 {
		return
	}
	key := ""
	all := args
	var argTypes []types.Type
	if c.IsInvoke() {
		key = ifaceMethodKey(c.Value.Type(), c.Method.Name())
		recv := preFn
		if evalRecv {
			recv = fr.val(c.Value)
		}
		all = append([]Term{recv}, args...)
		argTypes = append(argTypes, c.Value.Type())
	} else {
		switch callee := c.Value.(type) {
		case *ssa.Function:
			key = funcKey(callee)
		case *ssa.MakeClosure:
			key = funcKey(callee.Fn.(*ssa.Function))
		case *ssa.Builtin:
			key = "builtin." + callee.Name()
		case *ssa.UnOp:
			// call through a local function variable (dbg := func..; dbg(..)): named after the variable
			if callee.Op != token.MUL {
				return
			}
			switch x := callee.X.(type) {
			case *ssa.FreeVar:
				key = "var." + x.Name()
			case *ssa.Alloc:
				if x.Comment == "" {
					return
				}
				key = "var." + x.Comment
			default:
				return
			}
		default:
			return
		}
	}
	for _, a := range c.Args {
		argTypes = append(argTypes, a.Type())
	}
	kind := "callsite"
	if post {
		kind = "callsite-post"
	}
	for mi, m := range maps {
		for _, name := range sortedKeys(m) {
			if key != name && !strings.HasSuffix(key, "."+name) {
				continue
			}
			names := fr.baseNames(st)
			for i, a := range all {
				if i < len(argTypes) {
					names[fmt.Sprintf("arg%d", i)] = tval{t: a, ty: argTypes[i]}
				}
			}
			if post {
				for k, v := range resultNames(c.Signature(), results) {
					names[k] = v
				}
			}
			if key == "builtin.append" && len(c.Args) > 0 {
				// ownbuf: decided statically (data flow over SSA): the slice appended to is a buffer built by this
				// function (nil, make, string conversion, local array, or the result of appending to such a buffer), so an
				// append in place cannot write into an array that a caller, a store or another object also holds
				names["ownbuf"] = tval{t: boolTerm(ownedBuffer(c.Args[0], map[ssa.Value]bool{})), ty: tBool}
			}
			for _, cl := range m[name] {
				oldSt := fr.entry
				fromRoot := false
				if mi > 0 || fr.contract == nil || (post && len(fr.contract.CallSitesPost) == 0) || (!post && len(fr.contract.CallSites) == 0) {
					// a clause of the root function's contract evaluated inside a closure: old(...) is the root's entry
					for f := fr; f != nil; f = f.parent {
						if f.isRoot {
							oldSt = f.entry
							fromRoot = f != fr
						}
					}
				}
				ctx := fr.newEvalCtx(st, oldSt, names)
				ctx.oldFromRoot = fromRoot
				ck := fr.key + " callsite " + name + " " + cl.Text
				if cl.Ghost {
					gname := cl.E.Args[0].Name
					cur, has := st.ghost[gname]
					v, err := ctx.eval(cl.E.Args[1])
					if err == nil && has && asStr(v.t).Sort == cur.Sort {
						listed := false
						for _, ct := range []*Contract{fr.contract, u.contract} {
							if ct != nil {
								for _, g := range ghostModifies(ct.Modifies) {
									listed = listed || g == gname
								}
							}
						}
						if !listed {
							err = fmt.Errorf("ghost(%s) is not in the modifies clause", gname)
						}
					} else if err == nil {
						err = fmt.Errorf("%s is not a ghost variable of the sort of the right-hand side", gname)
					}
					if err != nil {
						if u.callsiteErr == nil {
							u.callsiteErr = map[string]string{}
						}
						u.callsiteErr[ck] = fmt.Sprintf("%s callsite %s %q: %v", fr.key, name, cl.Text, err)
						continue
					}
					if u.callsiteBound == nil {
						u.callsiteBound = map[string]bool{}
					}
					u.callsiteBound[ck] = true
					g2 := make(map[string]Term, len(st.ghost))
					for k, t := range st.ghost {
						g2[k] = t
					}
					g2[gname] = u.define("gset!"+gname, asStr(v.t))
					st.ghost = g2
					if cur.Sort == SStr {
						u.features["strmonoid"] = true
					}
					continue
				}
				v, err := ctx.eval(cl.E)
				if err != nil || v.t.Sort != SBool {
					// a name of the clause is not in scope at this call of the callee (the clause is written for a later
					// call): not applicable here; a clause that binds at no call site at all is reported at the end
					if u.callsiteErr == nil {
						u.callsiteErr = map[string]string{}
					}
					u.callsiteErr[ck] = fmt.Sprintf("%s callsite %s %q: %v", fr.key, name, cl.Text, err)
					continue
				}
				if u.callsiteBound == nil {
					u.callsiteBound = map[string]bool{}
				}
				u.callsiteBound[ck] = true
				u.oblige(fr, kind, pos, fmt.Sprintf("%s: %s", name, cl.Text), st.pc, v.t, false)
				u.assume(st.pc, v.t)
			}
		}
	}
}

func boolTerm(b bool) Term {
	if b {
		return True
	}
	return False
}

// ownedBuffer: every origin of the slice value v (through phis, reslicing and appends) is an allocation made by the
// function itself.
func ownedBuffer(v ssa.Value, seen map[ssa.Value]bool) bool {
	if seen[v] {
		return true
	}
	seen[v] = true
	switch x := v.(type) {
	case *ssa.Const:
		return x.IsNil()
	case *ssa.MakeSlice:
		return true
	case *ssa.Convert:
		_, fromString := x.X.Type().Underlying().(*types.Basic)
		return fromString
	case *ssa.ChangeType:
		return ownedBuffer(x.X, seen)
	case *ssa.Slice:
		if a, ok := x.X.(*ssa.Alloc); ok {
			_, isArr := a.Type().Underlying().(*types.Pointer).Elem().Underlying().(*types.Array)
			return isArr
		}
		if _, ok := x.X.Type().Underlying().(*types.Slice); ok {
			return ownedBuffer(x.X, seen)
		}
		return false
	case *ssa.Phi:
		for _, e := range x.Edges {
			if !ownedBuffer(e, seen) {
				return false
			}
		}
		return true
	case *ssa.Call:
		if b, ok := x.Call.Value.(*ssa.Builtin); ok && b.Name() == "append" && len(x.Call.Args) > 0 {
			return ownedBuffer(x.Call.Args[0], seen)
		}
		return false
	}
	return false
}

func libFnSymbol(fn string, sig string, result int) string {
	return quoteSym(fmt.Sprintf("lib:%s/%s#%d", fn, sig, result))
}

// dynTypeTag: what a formatting / joining library function can observe of the dynamic type of a variadic argument:
// for a type without methods only its underlying basic kind matters, otherwise the type itself.
func dynTypeTag(t types.Type) string {
	if b, ok := t.Underlying().(*types.Basic); ok {
		if ms := types.NewMethodSet(t); ms.Len() == 0 {
			return b.Name()
		}
	}
	return t.String()
}

// staticBindingAlloc: the variable (Alloc of an enclosing function) that the free variable fv of a closure is bound
// to, when the closure's function has exactly one MakeClosure site.
func staticBindingAlloc(fv *ssa.FreeVar, depth int) *ssa.Alloc {
	fn := fv.Parent()
	if fn == nil || fn.Parent() == nil || depth > 4 {
		return nil
	}
	idx := -1
	for i, f := range fn.FreeVars {
		if f == fv {
			idx = i
		}
	}
	if idx < 0 {
		return nil
	}
	var site *ssa.MakeClosure
	for _, b := range fn.Parent().Blocks {
		for _, in := range b.Instrs {
			if mc, ok := in.(*ssa.MakeClosure); ok && mc.Fn == ssa.Value(fn) {
				if site != nil {
					return nil
				}
				site = mc
			}
		}
	}
	if site == nil || idx >= len(site.Bindings) {
		return nil
	}
	switch b := site.Bindings[idx].(type) {
	case *ssa.Alloc:
		return b
	case *ssa.FreeVar:
		return staticBindingAlloc(b, depth+1)
	}
	return nil
}
