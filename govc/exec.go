package main

import (
	"fmt"
	"go/token"
	"go/types"
	"regexp"
	"sort"
	"strconv"
	"strings"

	"golang.org/x/tools/go/ssa"
)

type edgeKey struct{ from, to *ssa.BasicBlock }

type inEdge struct {
	pred *ssa.BasicBlock
	st   *State
	snap map[ssa.Value]Term // register snapshot for loop-defined values (unrolled loops)
}

type edgeMap map[edgeKey][]inEdge

// run symbolically executes the function of the frame from state in and returns its normal exits.
func (fr *Frame) run(in *State) []Exit {
	fn := fr.fn
	if len(fn.Blocks) == 0 {
		return nil
	}
	order := rpo(fn)
	loops := findLoops(fn)
	fr.loopOrd = map[*ssa.BasicBlock]int{}
	for h, li := range loops {
		fr.loopOrd[h] = li.ord
	}
	edges := edgeMap{}
	entry := fn.Blocks[0]
	edges[edgeKey{nil, entry}] = []inEdge{{nil, in, nil}}
	fr.execBlocks(order, func(*ssa.BasicBlock) bool { return true }, nil, loops, edges)
	return fr.exits
}

// execBlocks executes the blocks of order that are in the region. cur is the loop currently being
// processed (its head is executed as a plain block with the incoming edges given).
func (fr *Frame) execBlocks(order []*ssa.BasicBlock, region func(*ssa.BasicBlock) bool, cur *loopInfo, loops map[*ssa.BasicBlock]*loopInfo, edges edgeMap) {
	done := map[*ssa.BasicBlock]bool{}
	for _, b := range order {
		if !region(b) || done[b] {
			continue
		}
		if li := loops[b]; li != nil && li != cur {
			fr.execLoop(li, order, loops, edges)
			for x := range li.body {
				done[x] = true
			}
			continue
		}
		var inc []inEdge
		if cur != nil && b == cur.head {
			inc = edges[edgeKey{nil, b}] // supplied by execLoop
			delete(edges, edgeKey{nil, b})
		} else {
			inc = fr.incoming(b, edges, nil)
		}
		if len(inc) == 0 {
			continue
		}
		st := fr.enterBlock(b, inc)
		fr.execBlockBody(b, st, edges)
	}
}

// incoming collects the forward edges into b (excluding edges from inside 'exclude' if given).
func (fr *Frame) incoming(b *ssa.BasicBlock, edges edgeMap, onlyFrom func(*ssa.BasicBlock) bool) []inEdge {
	var inc []inEdge
	if b.Index == 0 {
		inc = append(inc, edges[edgeKey{nil, b}]...)
	}
	seen := map[*ssa.BasicBlock]bool{}
	for _, p := range b.Preds {
		if seen[p] {
			continue
		}
		seen[p] = true
		if onlyFrom != nil && !onlyFrom(p) {
			continue
		}
		inc = append(inc, edges[edgeKey{p, b}]...)
	}
	return inc
}

func predIndex(b, pred *ssa.BasicBlock, nth int) int {
	c := 0
	for i, p := range b.Preds {
		if p == pred {
			if c == nth {
				return i
			}
			c++
		}
	}
	return -1
}

// enterBlock merges the incoming states and binds the phi nodes of b.
func (fr *Frame) enterBlock(b *ssa.BasicBlock, inc []inEdge) *State {
	u := fr.u
	// registers snapshotted on exit edges of unrolled loops
	snapVals := map[ssa.Value]bool{}
	for _, e := range inc {
		for v := range e.snap {
			snapVals[v] = true
		}
	}
	for v := range snapVals {
		var t Term
		first := true
		for i := len(inc) - 1; i >= 0; i-- {
			val, ok := inc[i].snap[v]
			if !ok {
				val, ok = fr.regs[v]
				if !ok {
					continue
				}
			}
			if first {
				t = val
				first = false
			} else {
				t = Ite(inc[i].st.pc, val, t)
			}
		}
		if !first {
			fr.regs[v] = u.define("m", t)
		}
	}
	var st *State
	if len(inc) == 1 {
		st = inc[0].st.clone()
	} else {
		st = fr.mergeStates(inc)
	}
	// phis
	nthSeen := map[*ssa.BasicBlock]int{}
	type pe struct {
		pc  Term
		idx int
	}
	var pes []pe
	for _, e := range inc {
		if e.pred == nil {
			continue
		}
		n := nthSeen[e.pred]
		// if the same pred appears twice in Preds (both branches to b), edges were stored twice in order
		idx := predIndex(b, e.pred, n)
		if idx < 0 {
			idx = predIndex(b, e.pred, 0)
		} else {
			nthSeen[e.pred]++
		}
		pes = append(pes, pe{e.st.pc, idx})
	}
	newPhi := map[*ssa.Phi]Term{}
	defer func() {
		for phi, t := range newPhi {
			fr.regs[phi] = t
		}
	}()
	for _, in := range b.Instrs {
		phi, ok := in.(*ssa.Phi)
		if !ok {
			break
		}
		var t Term
		for i := len(pes) - 1; i >= 0; i-- {
			v := fr.val(phi.Edges[pes[i].idx])
			if i == len(pes)-1 {
				t = v
			} else {
				t = Ite(pes[i].pc, v, t)
			}
		}
		if len(pes) == 0 {
			t = u.fresh("phi", u.w.sortOf(phi.Type()))
		}
		t = u.define(fr.vname(phi), t)
		newPhi[phi] = t // bound after all phis are evaluated (parallel assignment)
		if phi.Comment != "" {
			st.env[envName(phi.Comment)] = envEntry{val: t, typ: phi.Type()}
			if phi.Comment == "rangeindex" {
				if ord, ok := fr.loopOrd[b]; ok {
					st.env[fmt.Sprintf("idx%d", ord)] = envEntry{val: t, typ: phi.Type()}
				}
			}
		}
	}
	return st
}

func envName(comment string) string {
	return comment
}

func (fr *Frame) vname(v ssa.Value) string {
	return fmt.Sprintf("%s.%s", fr.fn.Name(), v.Name())
}

func (fr *Frame) mergeStates(inc []inEdge) *State {
	u := fr.u
	st := inc[0].st.clone()
	var pcs []Term
	for _, e := range inc {
		pcs = append(pcs, e.st.pc)
	}
	st.pc = u.define("pc", Or(pcs...))
	mergeTerm := func(get func(s *State) Term) Term {
		var t Term
		for i := len(inc) - 1; i >= 0; i-- {
			v := get(inc[i].st)
			if i == len(inc)-1 {
				t = v
			} else {
				t = Ite(inc[i].st.pc, v, t)
			}
		}
		return t
	}
	// epoch: if epochs differ, unify by materialising heaps at the max epoch (rare); here: take max and
	// materialise every key known in any state.
	maxEpoch := st.epoch
	same := true
	for _, e := range inc {
		if e.st.epoch != maxEpoch {
			same = false
		}
		if e.st.epoch > maxEpoch {
			maxEpoch = e.st.epoch
		}
	}
	keys := map[string]bool{}
	for _, e := range inc {
		for k := range e.st.heaps {
			keys[k] = true
		}
	}
	if !same {
		// all heap keys known to the world must be materialised, since untouched keys differ per epoch
		for _, k := range u.w.heapOrder {
			keys[k] = true
		}
		u.nsym++
		st.epoch = 1000000 + u.nsym
	}
	for _, k := range sortedKeys(keys) {
		vs := u.w.heapSorts[k]
		t := mergeTerm(func(s *State) Term { return u.heap(s, k, vs) })
		st.heaps[k] = u.define("Hm", t)
	}
	st.alloc = u.define("alloc", mergeTerm(func(s *State) Term { return s.alloc }))
	st.held = u.define("held", mergeTerm(func(s *State) Term { return s.held }))
	gkeys := map[string]bool{}
	for _, e := range inc {
		for k := range e.st.ghost {
			gkeys[k] = true
		}
	}
	for k := range gkeys {
		ok := true
		for _, e := range inc {
			if _, has := e.st.ghost[k]; !has {
				ok = false
			}
		}
		if !ok {
			delete(st.ghost, k)
			continue
		}
		st.ghost[k] = u.define("g", mergeTerm(func(s *State) Term { return s.ghost[k] }))
	}
	// env: keep entries that agree, merge the others when present everywhere
	for k, v := range st.env {
		all := true
		sameV := true
		for _, e := range inc {
			ev, has := e.st.env[k]
			if !has || ev.isAddr != v.isAddr {
				all = false
				break
			}
			if ev.val.S != v.val.S {
				sameV = false
			}
		}
		if !all {
			delete(st.env, k)
			continue
		}
		if !sameV {
			if v.val.Sort == "" {
				delete(st.env, k)
				continue
			}
			st.env[k] = envEntry{val: u.define("e", mergeTerm(func(s *State) Term { return s.env[k].val })), typ: v.typ, isAddr: v.isAddr}
		}
	}
	// defers: stacks that differ (defer inside a conditional) are merged into guarded entries
	differ := false
	for _, e := range inc {
		if !sameDefers(e.st.defers, st.defers) {
			differ = true
		}
	}
	if differ {
		ok := true
		top := len(st.defers) - 1
		for _, e := range inc {
			if len(e.st.defers) != len(st.defers) {
				ok = false
				break
			}
			for lvl := 0; lvl < top; lvl++ {
				if !sameDefers([][]deferred{e.st.defers[lvl]}, [][]deferred{st.defers[lvl]}) {
					ok = false
				}
			}
		}
		if ok {
			// union of the top-level entries in program order (by site position); an entry is active on the paths that have it
			var sites []ssa.Instruction
			seen := map[ssa.Instruction]bool{}
			for _, e := range inc {
				for _, d := range e.st.defers[top] {
					if !seen[d.site] {
						seen[d.site] = true
						sites = append(sites, d.site)
					}
				}
			}
			sort.SliceStable(sites, func(i, j int) bool { return sites[i].Pos() < sites[j].Pos() })
			var merged []deferred
			for _, s := range sites {
				var act []Term
				var proto *deferred
				args := map[int][]Term{}
				for i, e := range inc {
					for k := range e.st.defers[top] {
						d := e.st.defers[top][k]
						if d.site == s {
							a := d.active
							if a.S == "" {
								a = True
							}
							act = append(act, And(e.st.pc, a))
							if proto == nil {
								dd := d
								proto = &dd
							}
							args[i] = d.args
						}
					}
				}
				if proto == nil {
					continue
				}
				// arguments may differ per path: merge them by ite
				for ai := range proto.args {
					var t Term
					first := true
					for i := len(inc) - 1; i >= 0; i-- {
						as, has := args[i]
						if !has {
							continue
						}
						if first {
							t = as[ai]
							first = false
						} else {
							t = Ite(inc[i].st.pc, as[ai], t)
						}
					}
					proto.args[ai] = u.define("darg", t)
				}
				proto.active = u.define("dact", Or(act...))
				merged = append(merged, *proto)
			}
			st.defers[top] = merged
		} else {
			u.note("defer stacks differ at merge in %s (unsupported shape)", fr.key)
			u.bindErrors = append(u.bindErrors, "defer stacks differ at a merge point in "+fr.key)
		}
	}
	return st
}

func sameDefers(a, b [][]deferred) bool {
	if len(a) != len(b) {
		return false
	}
	for i := range a {
		if len(a[i]) != len(b[i]) {
			return false
		}
		for j := range a[i] {
			if a[i][j].site != b[i][j].site {
				return false
			}
		}
	}
	return true
}

var symNumRe = regexp.MustCompile(`!(\d+)`)

// termIsOlderThan reports whether all generated symbols in the term were created before mark.
func termIsOlderThan(t Term, mark int) bool {
	for _, m := range symNumRe.FindAllStringSubmatch(t.S, -1) {
		n, _ := strconv.Atoi(m[1])
		if n > mark && n < 1000000 {
			return false
		}
	}
	return true
}

type unitSnapshot struct {
	ncmds, nfacts, nobls, nsites int
	declared                     map[string]bool
	oblNames                     map[string]int
	nbind                        int
	exits                        int
	nprobes                      int
}

func (u *Unit) snapshot() unitSnapshot {
	s := unitSnapshot{ncmds: len(u.cmds), nfacts: len(u.facts), nobls: len(u.obls), nsites: len(u.closureSites), nbind: len(u.bindErrors), nprobes: len(u.probes)}
	s.declared = make(map[string]bool, len(u.declared))
	for k, v := range u.declared {
		s.declared[k] = v
	}
	s.oblNames = make(map[string]int, len(u.oblNames))
	for k, v := range u.oblNames {
		s.oblNames[k] = v
	}
	return s
}

func (u *Unit) restoreKeepCmds(s unitSnapshot) {
	u.facts = u.facts[:s.nfacts]
	u.obls = u.obls[:s.nobls]
	u.closureSites = u.closureSites[:s.nsites]
	u.oblNames = s.oblNames
	u.bindErrors = u.bindErrors[:s.nbind]
	u.probes = u.probes[:s.nprobes]
}

func (u *Unit) restore(s unitSnapshot) {
	u.cmds = u.cmds[:s.ncmds]
	u.facts = u.facts[:s.nfacts]
	u.obls = u.obls[:s.nobls]
	u.closureSites = u.closureSites[:s.nsites]
	u.declared = s.declared
	u.oblNames = s.oblNames
	u.bindErrors = u.bindErrors[:s.nbind]
	u.probes = u.probes[:s.nprobes]
}

// loopEffects describes what a loop body (or callback) may change.
type loopEffects struct {
	heapKeys  map[string]bool
	all       bool             // unknown call: everything
	written   map[string][]Term // key -> objects (obj terms) written, only loop-invariant ones
	writtenLoc map[string][]Term // key -> exact cells written (address loop-invariant)
	variant   map[string]bool  // key has writes through loop-variant objects
	ghost     map[string]bool
	allocs    bool
}

func (fr *Frame) execLoop(li *loopInfo, order []*ssa.BasicBlock, loops map[*ssa.BasicBlock]*loopInfo, edges edgeMap) {
	u := fr.u
	head := li.head
	inBody := func(b *ssa.BasicBlock) bool { return li.body[b] }
	entryInc := fr.incoming(head, edges, func(p *ssa.BasicBlock) bool { return !li.body[p] })
	if len(entryInc) == 0 {
		return
	}
	var spec *LoopSpec
	if fr.contract != nil {
		spec = fr.contract.Loops[li.ord]
	}
	// values defined in the loop and used outside (needed for unrolling)
	liveOut := fr.liveOut(li)

	if spec != nil && spec.Unroll > 0 {
		inc := entryInc
		for iter := 0; iter <= spec.Unroll; iter++ {
			if len(inc) == 0 {
				break
			}
			if iter == spec.Unroll {
				// unwinding assertion: no further iteration is possible
				st := fr.enterBlock(head, inc)
				sub := edgeMap{}
				fr.execBlockBodyInto(head, st, sub)
				for k, es := range sub {
					if li.body[k.to] {
						for _, e := range es {
							u.oblige(fr, "unwind", blockPos(head), fmt.Sprintf("loop %d unroll %d", li.ord, spec.Unroll), e.st.pc, False, false)
						}
					} else {
						for _, e := range es {
							e.snap = fr.snapRegs(liveOut)
							edges[k] = append(edges[k], e)
						}
					}
				}
				break
			}
			sub := edgeMap{}
			sub[edgeKey{nil, head}] = inc
			fr.execBlocksCapture(order, inBody, li, loops, sub, liveOut)
			inc = nil
			for k, es := range sub {
				if k.to == head && k.from != nil {
					inc = append(inc, es...)
				} else if !li.body[k.to] {
					edges[k] = append(edges[k], es...)
				}
			}
			sort.SliceStable(inc, func(i, j int) bool { return inc[i].pred.Index < inc[j].pred.Index })
		}
		return
	}

	// invariant mode
	stE := fr.enterBlock(head, entryInc)
	phiEntry := map[*ssa.Phi]Term{}
	// havoc the loop-carried registers first (also for the speculative pass)
	stPhi := stE.clone()
	// the values carried around the loop may refer to objects allocated by earlier iterations: their well-formedness is
	// stated against the allocation watermark of the loop head (aH >= the watermark before the loop), not against the
	// watermark before the loop
	aH := u.fresh("alloc", SInt)
	u.assume(True, Ge(aH, stE.alloc))
	stPhi.alloc = aH
	for _, in := range head.Instrs {
		phi, ok := in.(*ssa.Phi)
		if !ok {
			break
		}
		phiEntry[phi] = fr.regs[phi]
		t := u.fresh(fr.vname(phi)+"~", u.w.sortOf(phi.Type()))
		fr.regs[phi] = t
		fr.assumeTypeInv(stPhi, t, phi.Type())
		if phi.Comment != "" {
			stPhi.env[phi.Comment] = envEntry{val: t, typ: phi.Type()}
			if phi.Comment == "rangeindex" {
				stPhi.env[fmt.Sprintf("idx%d", li.ord)] = envEntry{val: t, typ: phi.Type()}
			}
		}
	}
	havocPhi := map[*ssa.Phi]Term{}
	for phi := range phiEntry {
		havocPhi[phi] = fr.regs[phi]
	}
	// speculative pass to discover the effects of the body
	eff := fr.discoverEffects(func(sub edgeMap) {
		sub[edgeKey{nil, head}] = []inEdge{{nil, stPhi.clone(), nil}}
		fr.execBlocksNoPhi(order, inBody, li, loops, sub)
	}, stPhi, fr, li.body, false)
	for phi, t := range havocPhi {
		fr.regs[phi] = t
	}

	var invs []Clause
	if spec != nil {
		invs = spec.Invariants
	}
	// 1. invariants hold on entry (phis bound to their entry values)
	for phi, t := range phiEntry {
		fr.regs[phi] = t
	}
	for _, c := range invs {
		t, err := fr.evalBool(c.E, stE, fr.entry)
		if err != nil {
			u.bindErrors = append(u.bindErrors, fmt.Sprintf("%s loop %d invariant %q: %v", fr.key, li.ord, c.Text, err))
			continue
		}
		u.oblige(fr, "inv-entry", blockPos(head), fmt.Sprintf("loop %d: %s", li.ord, c.Text), stE.pc, t, false)
	}
	for phi, t := range havocPhi {
		fr.regs[phi] = t
	}
	// 2. havoc
	stH := stPhi.clone()
	fr.applyHavoc(stH, stE, eff)
	if eff.allocs || eff.all {
		u.assume(True, Le(aH, stH.alloc))
	} else {
		stH.alloc = stE.alloc
		u.assume(True, Eq(aH, stE.alloc))
	}
	// inferred invariants for counters: phi = init + k*step with constant init and step > 0  ==> phi >= init
	for _, in := range head.Instrs {
		phi, ok := in.(*ssa.Phi)
		if !ok {
			break
		}
		if lo, ok := fr.monotoneLowerBound(phi, li); ok {
			u.assume(stH.pc, Ge(fr.regs[phi], lo))
			// (justified by induction: checked as obligations below on entry and back edges)
			u.oblige(fr, "inv-entry", blockPos(head), fmt.Sprintf("loop %d: inferred %s >= init", li.ord, phiName(phi)), stE.pc, Ge(phiEntry[phi], lo), true)
		}
		if n, ok := fr.rangeUpperBound(phi, li); ok {
			u.assume(stH.pc, Lt(fr.regs[phi], fr.val(n)))
			u.oblige(fr, "inv-entry", blockPos(head), fmt.Sprintf("loop %d: inferred %s < bound", li.ord, phiName(phi)), stE.pc, Lt(phiEntry[phi], fr.val(n)), true)
		}
	}
	for _, c := range invs {
		t, err := fr.evalBool(c.E, stH, fr.entry)
		if err != nil {
			continue
		}
		u.assume(stH.pc, t)
	}
	// iterator protocol: "the callback has not yet returned false" is an inferred invariant of every loop
	var stopGhosts []string
	for g := range stH.ghost {
		if strings.HasPrefix(g, "stopped_") {
			stopGhosts = append(stopGhosts, g)
		}
	}
	sort.Strings(stopGhosts)
	for _, g := range stopGhosts {
		if e, ok := stE.ghost[g]; ok {
			u.oblige(fr, "inv-entry", blockPos(head), fmt.Sprintf("loop %d: inferred: callback has not returned false (%s)", li.ord, g), stE.pc, Not(e), true)
		}
		u.assume(stH.pc, Not(stH.ghost[g]))
	}
	savedPhi := map[*ssa.Phi]Term{}
	for phi := range phiEntry {
		savedPhi[phi] = fr.regs[phi]
	}
	// 3. body
	sub := edgeMap{}
	sub[edgeKey{nil, head}] = []inEdge{{nil, stH, nil}}
	// the head block itself: phis are already bound; execute with a marker so enterBlock doesn't rebind
	fr.execBlocksNoPhi(order, inBody, li, loops, sub)
	var back []inEdge
	for k, es := range sub {
		if k.to == head && k.from != nil {
			back = append(back, es...)
		} else if !li.body[k.to] {
			edges[k] = append(edges[k], es...)
		}
	}
	sort.SliceStable(back, func(i, j int) bool { return back[i].pred.Index < back[j].pred.Index })
	// 4. invariants preserved
	if len(back) > 0 {
		stB := fr.enterBlock(head, back)
		// vacuity probe: an iteration of the loop can be completed (its body is not dead under the assumed facts)
		u.probes = append(u.probes, probe{pc: stB.pc, what: fmt.Sprintf("no iteration of loop %d in %s can be completed under the assumed facts (%s)", li.ord, fr.key, u.posString(blockPos(head)))})
		for _, in := range head.Instrs {
			phi, ok := in.(*ssa.Phi)
			if !ok {
				break
			}
			if lo, ok := fr.monotoneLowerBound(phi, li); ok {
				u.oblige(fr, "inv-preserved", blockPos(head), fmt.Sprintf("loop %d: inferred %s >= init", li.ord, phiName(phi)), stB.pc, Ge(fr.regs[phi], lo), true)
			}
			if n, ok := fr.rangeUpperBound(phi, li); ok {
				u.oblige(fr, "inv-preserved", blockPos(head), fmt.Sprintf("loop %d: inferred %s < bound", li.ord, phiName(phi)), stB.pc, Lt(fr.regs[phi], fr.val(n)), true)
			}
		}
		if len(back) > 1 && len(back) <= 6 {
			// one obligation per back edge: the merged state (an ite per phi and per heap) is much harder
			// for the solvers than each path on its own
			savedRegs := map[*ssa.Phi]Term{}
			for _, in := range head.Instrs {
				if phi, ok := in.(*ssa.Phi); ok {
					savedRegs[phi] = fr.regs[phi]
				} else {
					break
				}
			}
			for bi, b := range back {
				for phi, t := range savedPhi {
					fr.regs[phi] = t
				}
				stOne := fr.enterBlock(head, []inEdge{b})
				for _, c := range invs {
					t, err := fr.evalBool(c.E, stOne, fr.entry)
					if err != nil {
						if bi == 0 {
							u.bindErrors = append(u.bindErrors, fmt.Sprintf("%s loop %d invariant %q: %v", fr.key, li.ord, c.Text, err))
						}
						continue
					}
					u.oblige(fr, "inv-preserved", blockPos(head), fmt.Sprintf("loop %d: %s", li.ord, c.Text), stOne.pc, t, false)
				}
			}
			for phi, t := range savedRegs {
				fr.regs[phi] = t
			}
		} else {
			for _, c := range invs {
				t, err := fr.evalBool(c.E, stB, fr.entry)
				if err != nil {
					u.bindErrors = append(u.bindErrors, fmt.Sprintf("%s loop %d invariant %q: %v", fr.key, li.ord, c.Text, err))
					continue
				}
				u.oblige(fr, "inv-preserved", blockPos(head), fmt.Sprintf("loop %d: %s", li.ord, c.Text), stB.pc, t, false)
			}
		}
		for _, g := range stopGhosts {
			if e, ok := stB.ghost[g]; ok {
				u.oblige(fr, "inv-preserved", blockPos(head), fmt.Sprintf("loop %d: inferred: callback has not returned false (%s)", li.ord, g), stB.pc, Not(e), true)
			}
		}
		// locks are balanced per iteration
		u.oblige(fr, "loop-balance", blockPos(head), fmt.Sprintf("loop %d: locks held at the end of an iteration equal those at its start", li.ord), stB.pc, Eq(stB.held, stH.held), true)
		if spec != nil && spec.Decreases != nil {
			d0, err0 := fr.evalInt(spec.Decreases, stH, fr.entry)
			// evaluate at the back edge with the phis rebound
			d1, err1 := fr.evalInt(spec.Decreases, stB, fr.entry)
			if err0 == nil && err1 == nil {
				_ = d0
				_ = d1
			}
		}
	}
	for phi, t := range savedPhi {
		fr.regs[phi] = t
	}
}

// rangeUpperBound recognises the range-loop header "t = phi + 1; if t < N" with N defined outside the loop:
// then phi < N is an inductive invariant (given N >= 0 on entry, which is checked).
func (fr *Frame) rangeUpperBound(phi *ssa.Phi, li *loopInfo) (ssa.Value, bool) {
	if phi.Comment != "rangeindex" {
		return nil, false
	}
	b := phi.Block()
	ifi, ok := b.Instrs[len(b.Instrs)-1].(*ssa.If)
	if !ok {
		return nil, false
	}
	cmp, ok := ifi.Cond.(*ssa.BinOp)
	if !ok || cmp.Op != token.LSS {
		return nil, false
	}
	inc, ok := cmp.X.(*ssa.BinOp)
	if !ok || inc.Op != token.ADD || inc.X != phi {
		return nil, false
	}
	if c, ok := inc.Y.(*ssa.Const); !ok || c.Value == nil || c.Int64() != 1 {
		return nil, false
	}
	// all back edges must carry inc
	for i, e := range phi.Edges {
		if li.body[b.Preds[i]] && e != inc {
			return nil, false
		}
	}
	if in, ok := cmp.Y.(ssa.Instruction); ok && li.body[in.Block()] {
		return nil, false
	}
	return cmp.Y, true
}

func phiName(phi *ssa.Phi) string {
	if phi.Comment != "" {
		return phi.Comment
	}
	return phi.Name()
}

// monotoneLowerBound recognises phi(init const, phi + c ...) with c >= 0 on all back edges.
func (fr *Frame) monotoneLowerBound(phi *ssa.Phi, li *loopInfo) (Term, bool) {
	b := phi.Block()
	var init *ssa.Const
	for i, e := range phi.Edges {
		pred := b.Preds[i]
		if !li.body[pred] {
			c, ok := e.(*ssa.Const)
			if !ok || c.Value == nil {
				return Term{}, false
			}
			if init != nil && init.Int64() != c.Int64() {
				return Term{}, false
			}
			init = c
		} else {
			if !fr.isPhiPlusNonNeg(e, phi, 0) {
				return Term{}, false
			}
		}
	}
	if init == nil {
		return Term{}, false
	}
	if _, _, ok := intRange(phi.Type()); !ok {
		return Term{}, false
	}
	return IntLit(init.Int64()), true
}

func (fr *Frame) isPhiPlusNonNeg(v ssa.Value, phi *ssa.Phi, depth int) bool {
	if v == phi {
		return true
	}
	if depth > 3 {
		return false
	}
	switch x := v.(type) {
	case *ssa.BinOp:
		if x.Op == token.ADD {
			if c, ok := x.Y.(*ssa.Const); ok && c.Value != nil && c.Int64() >= 0 {
				return fr.isPhiPlusNonNeg(x.X, phi, depth+1)
			}
		}
	case *ssa.Phi:
		// inner phi merging phi and phi+1 (e.g. conditional increment)
		for _, e := range x.Edges {
			if !fr.isPhiPlusNonNeg(e, phi, depth+1) {
				return false
			}
		}
		return true
	}
	return false
}

func (fr *Frame) liveOut(li *loopInfo) []ssa.Value {
	var out []ssa.Value
	for b := range li.body {
		for _, in := range b.Instrs {
			v, ok := in.(ssa.Value)
			if !ok {
				continue
			}
			refs := v.Referrers()
			if refs == nil {
				continue
			}
			for _, r := range *refs {
				if !li.body[r.Block()] {
					out = append(out, v)
					break
				}
			}
		}
	}
	return out
}

func (fr *Frame) snapRegs(vals []ssa.Value) map[ssa.Value]Term {
	m := map[ssa.Value]Term{}
	for _, v := range vals {
		if t, ok := fr.regs[v]; ok {
			m[v] = t
		}
	}
	return m
}

// execBlocksCapture is execBlocks for one unrolled iteration: exit edges get a register snapshot.
func (fr *Frame) execBlocksCapture(order []*ssa.BasicBlock, region func(*ssa.BasicBlock) bool, cur *loopInfo, loops map[*ssa.BasicBlock]*loopInfo, edges edgeMap, liveOut []ssa.Value) {
	before := map[edgeKey]int{}
	for k, v := range edges {
		before[k] = len(v)
	}
	// We need snapshots at the time the edge is created; execBlockBody records edges at the end of each
	// block, and registers defined later in the same iteration cannot be referenced by the exit target
	// (dominance), so snapshotting at the end of the iteration is not right for values overwritten by
	// later blocks of the same iteration -- there are none (each value is defined once per iteration).
	fr.execBlocks(order, region, cur, loops, edges)
	for k, es := range edges {
		if cur.body[k.to] {
			continue
		}
		for i := before[k]; i < len(es); i++ {
			es[i].snap = fr.snapRegs(liveOut)
		}
		edges[k] = es
	}
}

// execBlocksNoPhi: like execBlocks for the loop region, but the head's phis are already bound.
func (fr *Frame) execBlocksNoPhi(order []*ssa.BasicBlock, region func(*ssa.BasicBlock) bool, cur *loopInfo, loops map[*ssa.BasicBlock]*loopInfo, edges edgeMap) {
	head := cur.head
	inc := edges[edgeKey{nil, head}]
	delete(edges, edgeKey{nil, head})
	st := inc[0].st.clone()
	fr.execBlockBody(head, st, edges)
	fr.execBlocks(order, func(b *ssa.BasicBlock) bool { return region(b) && b != head }, cur, loops, edges)
}

// discoverEffects runs body speculatively and reports which parts of the state it may change.
func (fr *Frame) discoverEffects(body func(sub edgeMap), base *State, recFrame *Frame, region map[*ssa.BasicBlock]bool, isCallback bool) *loopEffects {
	u := fr.u
	snap := u.snapshot()
	mark := u.nsym
	savedRegs := make(map[ssa.Value]Term, len(fr.regs))
	for k, v := range fr.regs {
		savedRegs[k] = v
	}
	savedTuples := make(map[ssa.Value][]Term, len(fr.tuples))
	for k, v := range fr.tuples {
		savedTuples[k] = v
	}
	savedExits := len(fr.exits)
	u.depth++
	eff := &loopEffects{heapKeys: map[string]bool{}, written: map[string][]Term{}, writtenLoc: map[string][]Term{}, variant: map[string]bool{}, ghost: map[string]bool{}}
	prevRec := u.rec
	rec := &writeRecorder{mark: mark, eff: eff, frame: recFrame, body: region, isCallback: isCallback}
	u.rec = rec
	sub := edgeMap{}
	body(sub)
	u.rec = prevRec
	u.depth--
	// effects: compare every resulting state with base
	var check func(st *State)
	check = func(st *State) {
		if st.epoch != base.epoch {
			eff.all = true
			// after a havoc-everything event the heaps map only holds re-materialised entries: the keys the body
			// really writes are taken from the write recorder instead
			if st.alloc.S != base.alloc.S {
				eff.allocs = true
			}
			return
		}
		for k, t := range st.heaps {
			if bt, ok := base.heaps[k]; !ok || bt.S != t.S {
				eff.heapKeys[k] = true
			}
		}
		if st.alloc.S != base.alloc.S {
			eff.allocs = true
		}
		for k, t := range st.ghost {
			if bt, ok := base.ghost[k]; !ok || bt.S != t.S {
				eff.ghost[k] = true
			}
		}
	}
	for _, es := range sub {
		for _, e := range es {
			check(e.st)
		}
	}
	for _, ex := range fr.exits[savedExits:] {
		check(ex.st)
	}
	fr.exits = fr.exits[:savedExits]
	fr.regs = savedRegs
	fr.tuples = savedTuples
	// keep the declarations/definitions made during the pass (written-object terms refer to them); drop the rest
	u.restoreKeepCmds(snap)
	for _, wr := range rec.writes {
		eff.heapKeys[wr.key] = true
	}
	rec.classify(u, eff.heapKeys)
	return eff
}

type writeRecorder struct {
	mark       int
	eff        *loopEffects
	writes     []recordedWrite
	frame      *Frame
	body       map[*ssa.BasicBlock]bool
	isCallback bool
}

// applyHavoc replaces everything the body may change by fresh symbols in st (base is the pre-state).
func (fr *Frame) applyHavoc(st, base *State, eff *loopEffects) {
	u := fr.u
	if eff.allocs || eff.all {
		a := u.fresh("alloc", SInt)
		u.assume(True, Ge(a, base.alloc))
		st.alloc = a
	}
	if eff.all {
		u.nsym++
		st.epoch = 1000000 + u.nsym
		st.heaps = map[string]Term{}
		st.layer = nil
		u.epochAlloc[st.epoch] = st.alloc
		fr.preserveLocalsExcept(base, st, eff)
		fr.preservePrivateArrays(base, st, eff.heapKeys)
		u.note("loop/callback in %s contains a call with unknown effects: all heaps havocked at the loop head", fr.key)
	} else {
		for _, k := range sortedKeys(eff.heapKeys) {
			vs := u.w.heapSorts[k]
			old := u.heap(base, k, vs)
			h := u.fresh("Hl!"+k, ArraySort(SLoc, vs))
			st.heaps[k] = h
			u.heapWF(h, vs, st.alloc)
			// frame: cells of objects that existed before the loop and are not written keep their value
			if !eff.variant[k] {
				l := Sym("l!", SLoc)
				var conds []Term
				for _, o := range eff.written[k] {
					conds = append(conds, Neq(Obj(l), o))
				}
				for _, a := range eff.writtenLoc[k] {
					conds = append(conds, Neq(l, a))
				}
				conds = append(conds, Le(Obj(l), base.alloc))
				u.assume(True, Forall([]Term{l}, Implies(And(conds...), Eq(Select(h, l, vs), Select(old, l, vs))), []Term{Select(h, l, vs)}))
			}
		}
		// write-once variables (assigned at their declaration only, read afterwards - also by closures) keep their
		// value whatever the body does to other cells of the same heap
		for _, lc := range u.localCells {
			if !lc.writeOnce {
				continue
			}
			for _, c := range fr.leafCellsAt(lc.typ, lc.addr) {
				if !eff.heapKeys[c.key] {
					continue
				}
				vs := u.w.sortOf(c.typ)
				u.assume(True, Eq(Select(st.heaps[c.key], c.idx, vs), Select(u.heap(base, c.key, vs), c.idx, vs)))
			}
		}
	}
	for k := range eff.ghost {
		if t, ok := base.ghost[k]; ok {
			st.ghost[k] = u.fresh("g!"+k, t.Sort)
			if k == "epoch" {
				u.assume(True, Ge(st.ghost[k], t))
			}
		}
	}
}

func (fr *Frame) execBlockBody(b *ssa.BasicBlock, st *State, edges edgeMap) {
	fr.execBlockBodyInto(b, st, edges)
}

// execBlockBodyInto executes the non-phi instructions of b and records the outgoing edges.
func (fr *Frame) execBlockBodyInto(b *ssa.BasicBlock, st *State, edges edgeMap) {
	u := fr.u
	for _, in := range b.Instrs {
		switch x := in.(type) {
		case *ssa.Phi:
			continue
		case *ssa.If:
			c := fr.val(x.Cond)
			t := st.clone()
			t.pc = u.define("pc", And(st.pc, c))
			f := st.clone()
			f.pc = u.define("pc", And(st.pc, Not(c)))
			edges[edgeKey{b, b.Succs[0]}] = append(edges[edgeKey{b, b.Succs[0]}], inEdge{b, t, nil})
			edges[edgeKey{b, b.Succs[1]}] = append(edges[edgeKey{b, b.Succs[1]}], inEdge{b, f, nil})
			return
		case *ssa.Jump:
			edges[edgeKey{b, b.Succs[0]}] = append(edges[edgeKey{b, b.Succs[0]}], inEdge{b, st, nil})
			return
		case *ssa.Return:
			var res []Term
			for _, r := range x.Results {
				res = append(res, fr.val(r))
			}
			fr.exits = append(fr.exits, Exit{st, res})
			return
		case *ssa.Panic:
			fr.execPanic(x, st)
			return
		default:
			st = fr.execInstr(in, st)
			if st == nil {
				return // path ended (e.g. call that never returns)
			}
		}
	}
}

func (fr *Frame) execPanic(x *ssa.Panic, st *State) {
	u := fr.u
	// a panic is a failed obligation unless the contract's "panics iff" covers it
	// (a panic inside a closure that the root function runs in context leaves the root function as well)
	root := fr
	for root != nil && !root.isRoot {
		root = root.parent
	}
	c := fr.contract
	if root != nil && root != fr && root.contract != nil && root.contract.PanicsIff != nil {
		c = root.contract
	}
	if c != nil && c.PanicsIff != nil && root != nil {
		t, err := root.evalBool(c.PanicsIff.E, st, root.entry)
		if err == nil {
			u.oblige(fr, "panic-allowed", x.Pos(), "panics iff "+c.PanicsIff.Text, st.pc, t, false)
			return
		}
		u.bindErrors = append(u.bindErrors, fmt.Sprintf("%s panics iff: %v", fr.key, err))
	}
	u.oblige(fr, "explicit-panic", x.Pos(), fr.srcText(x.Pos(), "panic"), st.pc, False, false)
}

// srcText returns a short, position-independent description of the source construct at pos.
func (fr *Frame) srcText(pos token.Pos, fallback string) string {
	if !pos.IsValid() {
		return fallback
	}
	if s := fr.u.w.exprTextAt(pos); s != "" {
		return s
	}
	return fallback
}

func typeOfValue(v ssa.Value) types.Type { return v.Type() }

func derefType(t types.Type) types.Type {
	if p, ok := t.Underlying().(*types.Pointer); ok {
		return p.Elem()
	}
	return t
}

func trimLong(s string, n int) string {
	s = strings.Join(strings.Fields(s), " ")
	if len(s) > n {
		return s[:n] + "…"
	}
	return s
}
