package main

// The byte-string theory used by the verification conditions is axiomatic (uninterpreted sort Str with s.len,
// s.at, s.lt, s.prefix ...). The order/prefix axioms that the units assume (irreflexivity, asymmetry,
// transitivity, empty string least, prefix facts) are PROVED here, on every run, from the witness definition
// of bytewise lexicographic order; only trichotomy (totality) remains assumed.

const theoryDefs = `(set-logic ALL)
(declare-sort Str 0)
(declare-fun s.len (Str) Int)
(declare-fun s.at (Str Int) Int)
(declare-fun s.lt (Str Str) Bool)
(declare-fun s.prefix (Str Str) Bool)
(declare-fun s.ltk (Str Str) Int)
(declare-fun s.diff (Str Str) Int)
(declare-fun s.pdiff (Str Str) Int)
(assert (forall ((s Str)) (! (>= (s.len s) 0) :pattern ((s.len s)))))
; definition of the order by its witness: a < b  iff  exists k. equal below k and (a ends at k < len b, or a[k] < b[k])
(assert (forall ((a Str) (b Str)) (! (=> (s.lt a b)
   (let ((k (s.ltk a b))) (and (<= 0 k) (<= k (s.len a)) (<= k (s.len b))
       (forall ((i Int)) (=> (and (<= 0 i) (< i k)) (= (s.at a i) (s.at b i))))
       (or (and (= k (s.len a)) (< k (s.len b)))
           (and (< k (s.len a)) (< k (s.len b)) (< (s.at a k) (s.at b k))))))) :pattern ((s.lt a b)))))
(assert (forall ((a Str) (b Str) (k Int)) (=> (and (<= 0 k) (<= k (s.len a)) (<= k (s.len b))
       (forall ((i Int)) (=> (and (<= 0 i) (< i k)) (= (s.at a i) (s.at b i))))
       (or (and (= k (s.len a)) (< k (s.len b)))
           (and (< k (s.len a)) (< k (s.len b)) (< (s.at a k) (s.at b k))))) (s.lt a b))))
; definition of prefix
(assert (forall ((p Str) (s Str)) (! (=> (s.prefix p s) (and (<= (s.len p) (s.len s)) (forall ((i Int)) (=> (and (<= 0 i) (< i (s.len p))) (= (s.at p i) (s.at s i)))))) :pattern ((s.prefix p s)))))
(assert (forall ((p Str) (s Str)) (! (=> (not (s.prefix p s)) (or (> (s.len p) (s.len s)) (and (<= 0 (s.pdiff p s)) (< (s.pdiff p s) (s.len p)) (not (= (s.at p (s.pdiff p s)) (s.at s (s.pdiff p s))))))) :pattern ((s.prefix p s)))))
; extensionality
(assert (forall ((a Str) (b Str)) (! (=> (not (= a b)) (or (not (= (s.len a) (s.len b))) (and (<= 0 (s.diff a b)) (< (s.diff a b) (s.len a)) (not (= (s.at a (s.diff a b)) (s.at b (s.diff a b))))))) :pattern ((s.diff a b)))))
`

type theoryLemma struct {
	name string
	text string // what is proved
	goal string // negated goal (SMT commands)
}

const theoryDefs2 = `(declare-fun s.cat (Str Str) Str)
(declare-fun s.byte (Int) Str)
(assert (forall ((a Str) (b Str)) (! (= (s.len (s.cat a b)) (+ (s.len a) (s.len b))) :pattern ((s.cat a b)))))
(assert (forall ((a Str) (b Str) (i Int)) (! (= (s.at (s.cat a b) i) (ite (< i (s.len a)) (s.at a i) (s.at b (- i (s.len a))))) :pattern ((s.at (s.cat a b) i)))))
(assert (forall ((c Int)) (! (and (= (s.len (s.byte c)) 1) (= (s.at (s.byte c) 0) c)) :pattern ((s.byte c)))))
(assert (forall ((s Str) (i Int)) (! (and (<= 0 (s.at s i)) (<= (s.at s i) 255)) :pattern ((s.at s i)))))
`

var theoryLemmas = []theoryLemma{
	{"successor-1", "k < x ==> !(x < k+[0])", theoryDefs2 + "(declare-const k Str)(declare-const x Str)(assert (s.lt k x))(assert (s.lt x (s.cat k (s.byte 0))))"},
	{"successor-2", "!(k < x) && trichotomy(k,x) ==> x < k+[0]", theoryDefs2 + "(declare-const k Str)(declare-const x Str)(assert (not (s.lt k x)))(assert (not (s.lt x (s.cat k (s.byte 0)))))(assert (or (s.lt k x) (= k x) (s.lt x k)))"},
	{"successor-3", "k < k+[0]", theoryDefs2 + "(declare-const k Str)(assert (not (s.lt k (s.cat k (s.byte 0)))))"},
	{"prefix-not-less", "hasPrefix(s,p) ==> !(s < p)", "(declare-const p Str)(declare-const s Str)(assert (s.prefix p s))(assert (s.lt s p))"},
	{"lt-irreflexive", "!(a < a)", "(declare-const a Str)(assert (s.lt a a))"},
	{"lt-asymmetric", "a < b ==> !(b < a)", "(declare-const a Str)(declare-const b Str)(assert (s.lt a b))(assert (s.lt b a))"},
	{"lt-transitive", "a < b && b < c ==> a < c", "(declare-const a Str)(declare-const b Str)(declare-const c Str)(assert (s.lt a b))(assert (s.lt b c))(assert (not (s.lt a c)))"},
	{"empty-least", "len a == 0 && len b > 0 ==> a < b", "(declare-const a Str)(declare-const b Str)(assert (= (s.len a) 0))(assert (> (s.len b) 0))(assert (not (s.lt a b)))"},
	{"nothing-below-empty", "len b == 0 ==> !(a < b)", "(declare-const a Str)(declare-const b Str)(assert (= (s.len b) 0))(assert (s.lt a b))"},
	{"empty-unique", "len a == 0 && len b == 0 ==> a == b", "(declare-const a Str)(declare-const b Str)(assert (= (s.len a) 0))(assert (= (s.len b) 0))(assert (not (= a b)))(assert (= (s.diff a b) (s.diff a b)))"},
	{"cat-right-identity", "len b == 0 ==> a+b == a", theoryDefs2 + "(declare-const a Str)(declare-const b Str)(assert (= (s.len b) 0))(assert (not (= (s.cat a b) a)))(assert (= (s.diff (s.cat a b) a) (s.diff (s.cat a b) a)))"},
	{"cat-left-identity", "len a == 0 ==> a+b == b", theoryDefs2 + "(declare-const a Str)(declare-const b Str)(assert (= (s.len a) 0))(assert (not (= (s.cat a b) b)))(assert (= (s.diff (s.cat a b) b) (s.diff (s.cat a b) b)))"},
	{"cat-associative", "(a+b)+c == a+(b+c)", theoryDefs2 + "(declare-const a Str)(declare-const b Str)(declare-const c Str)(assert (not (= (s.cat (s.cat a b) c) (s.cat a (s.cat b c)))))(assert (= (s.diff (s.cat (s.cat a b) c) (s.cat a (s.cat b c))) (s.diff (s.cat (s.cat a b) c) (s.cat a (s.cat b c)))))"},
	{"prefix-length", "hasPrefix(s,p) ==> len p <= len s", "(declare-const p Str)(declare-const s Str)(assert (s.prefix p s))(assert (> (s.len p) (s.len s)))"},
	{"prefix-reflexive", "hasPrefix(s,s)", "(declare-const s Str)(assert (not (s.prefix s s)))"},
	{"prefix-empty", "len p == 0 ==> hasPrefix(s,p)", "(declare-const p Str)(declare-const s Str)(assert (= (s.len p) 0))(assert (not (s.prefix p s)))"},
}

// theoryObligations returns the lemma obligations (self-contained SMT queries).
func theoryObligations(props []string) []*Obligation {
	var out []*Obligation
	for _, l := range theoryLemmas {
		out = append(out, &Obligation{
			Name: "theory.bytestrings/lemma[" + l.name + ": " + l.text + "]#1", Kind: "lemma", Func: "theory.bytestrings", In: "theory.bytestrings",
			Props: props, Text: l.text, Pos: "govc/theory.go",
			rawSMT: theoryDefs + l.goal + "\n(check-sat)\n",
		})
	}
	return out
}
