package main

import (
	"fmt"
	"go/types"
	"sort"
	"strings"
)

// World holds the per-run type environment shared by all verification units.
type World struct {
	ld *Loaded
	sh *Shared
	globalIDs map[string]int
	importNames map[string]map[string]*types.Package

	sortCache  map[string]Sort // key: type string
	dtDecls    []string        // datatype declarations, in dependency order
	dtDeclared map[string]bool
	heapSorts  map[string]Sort // heap key -> value sort
	heapOrder  []string

	tagOf   map[string]int // type string -> tag
	tagType []types.Type

	strLits   map[string]int
	strLitArr []string

	addrTaken map[string]bool // field heap keys whose address escapes -> use type-keyed heap

	globals map[string]Sort // global cells (by loc symbol)
}

func newWorld(ld *Loaded) *World {
	return &World{
		ld:         ld,
		sortCache:  map[string]Sort{},
		dtDeclared: map[string]bool{},
		heapSorts:  map[string]Sort{},
		tagOf:      map[string]int{},
		tagType:    []types.Type{nil},
		strLits:    map[string]int{},
		addrTaken:  map[string]bool{},
		globals:    map[string]Sort{},
		globalIDs:  map[string]int{},
	}
}

func newWorldShared(sh *Shared) *World {
	w := newWorld(sh.ld)
	w.strLit("")
	w.sh = sh
	w.addrTaken = sh.addrTaken
	w.importNames = sh.importNames
	return w
}

func isByte(t types.Type) bool {
	b, ok := t.Underlying().(*types.Basic)
	return ok && (b.Kind() == types.Uint8)
}

func isByteSlice(t types.Type) bool {
	s, ok := t.Underlying().(*types.Slice)
	return ok && isByte(s.Elem())
}

func typeKey(t types.Type) string {
	return types.TypeString(t, func(p *types.Package) string { return p.Path() })
}

func shortTypeKey(t types.Type) string {
	return types.TypeString(t, func(p *types.Package) string { return p.Name() })
}

func (w *World) sortOf(t types.Type) Sort {
	key := typeKey(t)
	if s, ok := w.sortCache[key]; ok {
		return s
	}
	s := w.sortOf1(t)
	w.sortCache[key] = s
	return s
}

func (w *World) sortOf1(t types.Type) Sort {
	switch u := t.Underlying().(type) {
	case *types.Basic:
		switch {
		case u.Info()&types.IsBoolean != 0:
			return SBool
		case u.Info()&types.IsString != 0:
			return SStr
		case u.Info()&types.IsInteger != 0:
			return SInt
		case u.Info()&types.IsFloat != 0:
			return SReal
		case u.Kind() == types.UnsafePointer:
			return SLoc
		case u.Kind() == types.UntypedNil:
			return SLoc
		}
		return SInt
	case *types.Pointer, *types.Map, *types.Chan, *types.Signature:
		return SLoc
	case *types.Slice:
		if isByte(u.Elem()) {
			return SBytes
		}
		return SSlice
	case *types.Interface:
		return SIface
	case *types.Array:
		return ArraySort(SInt, w.sortOf(u.Elem()))
	case *types.Struct:
		return w.structSort(t, u)
	case *types.Tuple:
		if u.Len() == 0 {
			return SUnit
		}
		return SUnit
	}
	return SInt
}

func (w *World) structSort(t types.Type, u *types.Struct) Sort {
	name := "S:" + shortTypeKey(t)
	if len(name) > 120 {
		name = fmt.Sprintf("%s#%d", name[:100], len(w.dtDecls))
	}
	q := quoteSym(name)
	key := typeKey(t)
	if w.dtDeclared[key] {
		return Sort(q)
	}
	w.dtDeclared[key] = true
	w.sortCache[key] = Sort(q)
	var fs []string
	for i := 0; i < u.NumFields(); i++ {
		fsort := w.sortOf(u.Field(i).Type())
		fs = append(fs, fmt.Sprintf("(%s %s)", w.structAcc(t, i), fsort))
	}
	decl := fmt.Sprintf("(declare-datatypes ((%s 0)) (((%s %s))))", q, w.structCtor(t), strings.Join(fs, " "))
	if u.NumFields() == 0 {
		decl = fmt.Sprintf("(declare-datatypes ((%s 0)) (((%s))))", q, w.structCtor(t))
	}
	w.dtDecls = append(w.dtDecls, decl)
	return Sort(q)
}

func (w *World) structCtor(t types.Type) string {
	return quoteSym("mk:" + shortTypeKey(t))
}
func (w *World) structAcc(t types.Type, i int) string {
	u := t.Underlying().(*types.Struct)
	return quoteSym(fmt.Sprintf("get:%s.%s", shortTypeKey(t), u.Field(i).Name()))
}

func (w *World) structField(t types.Type, v Term, i int) Term {
	u := t.Underlying().(*types.Struct)
	return mk(w.sortOf(u.Field(i).Type()), w.structAcc(t, i), v)
}

func (w *World) structMake(t types.Type, fields []Term) Term {
	s := w.sortOf(t)
	if len(fields) == 0 {
		return Term{w.structCtor(t), s}
	}
	return mk(s, w.structCtor(t), fields...)
}

// sizeOf is the number of leaf cells a value of type t occupies in memory.
func (w *World) sizeOf(t types.Type) int {
	switch u := t.Underlying().(type) {
	case *types.Struct:
		n := 0
		for i := 0; i < u.NumFields(); i++ {
			n += w.sizeOf(u.Field(i).Type())
		}
		if n == 0 {
			n = 1
		}
		return n
	case *types.Array:
		n := int(u.Len()) * w.sizeOf(u.Elem())
		if n == 0 {
			n = 1
		}
		return n
	}
	return 1
}

func (w *World) fieldOffset(st *types.Struct, i int) int {
	n := 0
	for j := 0; j < i; j++ {
		n += w.sizeOf(st.Field(j).Type())
	}
	return n
}

// fieldHeapKey returns the heap key for leaf field i of struct type t (named or not).
func (w *World) fieldHeapKey(t types.Type, i int) string {
	st := t.Underlying().(*types.Struct)
	return "F:" + shortTypeKey(t) + "." + st.Field(i).Name()
}

func (w *World) typeHeapKey(t types.Type) string {
	return "T:" + shortTypeKey(t)
}

func (w *World) heapSort(key string, valSort Sort) Sort {
	if _, ok := w.heapSorts[key]; !ok {
		w.heapSorts[key] = valSort
		w.heapOrder = append(w.heapOrder, key)
	}
	return ArraySort(SLoc, valSort)
}

func (w *World) tag(t types.Type) int {
	k := typeKey(t)
	if n, ok := w.tagOf[k]; ok {
		return n
	}
	n := len(w.tagType)
	w.tagOf[k] = n
	w.tagType = append(w.tagType, t)
	return n
}

func (w *World) strLit(s string) Term {
	n, ok := w.strLits[s]
	if !ok {
		n = len(w.strLitArr)
		w.strLits[s] = n
		w.strLitArr = append(w.strLitArr, s)
	}
	return Term{fmt.Sprintf("strlit!%d", n), SStr}
}

// zero value of a Go type
func (w *World) zero(t types.Type) Term {
	switch u := t.Underlying().(type) {
	case *types.Basic:
		switch {
		case u.Info()&types.IsBoolean != 0:
			return False
		case u.Info()&types.IsString != 0:
			return w.strLit("")
		case u.Info()&types.IsInteger != 0:
			return IntLit(0)
		case u.Info()&types.IsFloat != 0:
			return Term{"0.0", SReal}
		}
		return NilLoc
	case *types.Pointer, *types.Map, *types.Chan, *types.Signature:
		return NilLoc
	case *types.Slice:
		if isByte(u.Elem()) {
			return NilBytes
		}
		return NilSlice
	case *types.Interface:
		return NilIface
	case *types.Array:
		es := w.sortOf(u.Elem())
		return Term{fmt.Sprintf("((as const %s) %s)", ArraySort(SInt, es), w.zero(u.Elem()).S), ArraySort(SInt, es)}
	case *types.Struct:
		var fs []Term
		for i := 0; i < u.NumFields(); i++ {
			fs = append(fs, w.zero(u.Field(i).Type()))
		}
		return w.structMake(t, fs)
	}
	return IntLit(0)
}

// intRange returns lo, hi (as decimal strings) for an integer basic kind; ok=false if not integer.
func intRange(t types.Type) (lo, hi string, ok bool) {
	b, isb := t.Underlying().(*types.Basic)
	if !isb || b.Info()&types.IsInteger == 0 {
		return "", "", false
	}
	switch b.Kind() {
	case types.Int8:
		return "-128", "127", true
	case types.Int16:
		return "-32768", "32767", true
	case types.Int32:
		return "-2147483648", "2147483647", true
	case types.Int64, types.Int, types.UntypedInt:
		return "-9223372036854775808", "9223372036854775807", true
	case types.Uint8:
		return "0", "255", true
	case types.Uint16:
		return "0", "65535", true
	case types.Uint32:
		return "0", "4294967295", true
	case types.Uint64, types.Uint, types.Uintptr:
		return "0", "18446744073709551615", true
	}
	return "", "", false
}

func intWidth(t types.Type) (bits int, signed bool) {
	b, isb := t.Underlying().(*types.Basic)
	if !isb {
		return 64, true
	}
	switch b.Kind() {
	case types.Int8:
		return 8, true
	case types.Int16:
		return 16, true
	case types.Int32:
		return 32, true
	case types.Uint8:
		return 8, false
	case types.Uint16:
		return 16, false
	case types.Uint32:
		return 32, false
	case types.Uint64, types.Uint, types.Uintptr:
		return 64, false
	}
	return 64, true
}

// prelude emits the fixed declarations and the run-specific ones (datatypes, heaps, literals).
func (w *World) preludeFixed() string {
	return `(declare-datatypes ((Loc 0)) (((loc (obj Int) (off Int)))))
(define-fun nilloc () Loc (loc 0 0))
(declare-fun elem (Loc Int) Loc)
(assert (forall ((b Loc) (k Int)) (! (= (elem b k) (loc (obj b) (+ (off b) k))) :pattern ((elem b k)))))
(declare-fun elemn (Loc Int Int) Loc)
(assert (forall ((b Loc) (k Int) (n Int)) (! (= (elemn b k n) (loc (obj b) (+ (off b) (* k n)))) :pattern ((elemn b k n)))))
(declare-datatypes ((Slice 0)) (((slice (sptr Loc) (slen Int) (scap Int)))))
(define-fun nilslice () Slice (slice nilloc 0 0))
(declare-datatypes ((Iface 0)) (((iface (itag Int) (ival Loc)))))
(define-fun niliface () Iface (iface 0 nilloc))
(declare-sort Str 0)
(declare-datatypes ((Bytes 0)) (((bytes (bnil Bool) (bstr Str)))))
(declare-datatypes ((Unit 0)) (((unit))))
(declare-fun s.len (Str) Int)
(declare-fun s.at (Str Int) Int)
(declare-fun s.cat (Str Str) Str)
(declare-fun s.sub (Str Int Int) Str)
(declare-fun s.lt (Str Str) Bool)
(declare-fun s.prefix (Str Str) Bool)
(declare-fun s.fromint (Int) Str)
(declare-fun s.byte (Int) Str)
(declare-fun s.idx (Str Str) Int)
`
}

func (w *World) strLitDecls() string {
	var sb strings.Builder
	for i := range w.strLitArr {
		fmt.Fprintf(&sb, "(declare-const strlit!%d Str)\n", i)
	}
	// nilbytes needs the empty string literal
	return sb.String()
}

func (w *World) strLitFacts(chars bool) []string {
	var out []string
	n := len(w.strLitArr)
	if n > 1 {
		var sb strings.Builder
		sb.WriteString("(distinct")
		for i := 0; i < n; i++ {
			fmt.Fprintf(&sb, " strlit!%d", i)
		}
		sb.WriteString(")")
		out = append(out, sb.String())
	}
	for i, s := range w.strLitArr {
		out = append(out, fmt.Sprintf("(= (s.len strlit!%d) %d)", i, len(s)))
		if len(s) == 1 {
			out = append(out, fmt.Sprintf("(= strlit!%d (s.byte %d))", i, s[0]))
		}
		if chars && len(s) <= 64 {
			for j := 0; j < len(s); j++ {
				out = append(out, fmt.Sprintf("(= (s.at strlit!%d %d) %d)", i, j, s[j]))
			}
		}
	}
	return out
}

func sortedKeys[V any](m map[string]V) []string {
	ks := make([]string, 0, len(m))
	for k := range m {
		ks = append(ks, k)
	}
	sort.Strings(ks)
	return ks
}
