package main

import (
	"go/types"
	"strings"

	"golang.org/x/tools/go/ssa"
)

// ifaceContractFor finds a contract attached to an interface method that fn implements (same package).
// It returns the contract and a map from the interface's parameter names to fn's parameter names.
func ifaceContractFor(sh *Shared, cs *ContractSet, fn *ssa.Function) (*Contract, map[string]string) {
	recv := fn.Signature.Recv()
	if recv == nil || fn.Pkg == nil {
		return nil, nil
	}
	pkg := fn.Pkg.Pkg
	scope := pkg.Scope()
	for _, name := range scope.Names() {
		tn, ok := scope.Lookup(name).(*types.TypeName)
		if !ok {
			continue
		}
		iface, ok := tn.Type().Underlying().(*types.Interface)
		if !ok {
			continue
		}
		key := pkg.Name() + ".(" + tn.Name() + ")." + fn.Name()
		ct := cs.ByKey[key]
		if ct == nil {
			continue
		}
		if !types.Implements(recv.Type(), iface) {
			continue
		}
		// parameter name mapping by position
		var m *types.Func
		for i := 0; i < iface.NumMethods(); i++ {
			if iface.Method(i).Name() == fn.Name() {
				m = iface.Method(i)
			}
		}
		if m == nil {
			continue
		}
		alias := map[string]string{}
		if len(fn.Params) > 0 {
			alias["recv"] = fn.Params[0].Name()
		}
		isig := m.Type().(*types.Signature)
		for i := 0; i < isig.Params().Len() && i+1 < len(fn.Params); i++ {
			n := isig.Params().At(i).Name()
			if n == "" || n == "_" {
				continue
			}
			if n != fn.Params[i+1].Name() {
				alias[n] = fn.Params[i+1].Name()
			}
		}
		_ = strings.TrimSpace
		return ct, alias
	}
	return nil, nil
}
