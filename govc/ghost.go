package main

import "strings"

// ghostModifies extracts the ghost variables named by ghost(NAME) designators.
func ghostModifies(desigs []string) []string {
	var out []string
	for _, d := range desigs {
		d = strings.TrimSpace(d)
		if strings.HasPrefix(d, "ghost(") && strings.HasSuffix(d, ")") {
			out = append(out, strings.TrimSpace(d[6:len(d)-1]))
		}
	}
	return out
}

// mentionsGhost: does the expression mention a declared ghost variable (or epoch)?
func (u *Unit) mentionsGhost(e *Expr) bool {
	if e == nil {
		return false
	}
	if e.Op == "id" {
		if e.Name == "epoch" {
			return true
		}
		for _, g := range u.cs.GhostVars {
			if g.Name == e.Name {
				return true
			}
		}
	}
	for _, a := range e.Args {
		if u.mentionsGhost(a) {
			return true
		}
	}
	return false
}

// protocolGhost: declared `ghostvar NAME SORT protocol`.
func (u *Unit) protocolGhost(name string) bool {
	for _, g := range u.cs.GhostVars {
		if g.Name == name {
			return g.Protocol
		}
	}
	return false
}
