package main

import "strings"

// ghostModifies extracts the ghost variables named by ghost(NAME) designators.
func ghostModifies(desigs []string) []string {
	var out []string
	for _, d := range desigs {
		d = strings.TrimSpace(d)
		if strings.HasPrefix(d, "ghost(") && strings.HasSuffix(d, ")") {
			out = append(out, strings.TrimSpace(d[6:len(d)-1]))
		}
	}
	return out
}
