package main

import (
	"fmt"
	"go/token"
	"go/types"
	"strings"

	"golang.org/x/tools/go/ssa"
)

// bindDecls resolves typeinv and guarded_by declarations to heap keys.
func (sh *Shared) bindDecls(cs *ContractSet) error {
	w := newWorldShared(sh)
	pkgByName := func(name string) *types.Package {
		for _, p := range sh.ld.Pkgs {
			if p.Types.Name() == name {
				return p.Types
			}
		}
		return nil
	}
	for _, ti := range cs.TypeInvs {
		pkg := pkgByName(ti.Pkg)
		if ti.Kind == "pureglobal" {
			// the function stored in this package-level variable (an injected source of randomness, a clock ...) has
			// no effect on emulator state; its result is unconstrained
			if pkg == nil || pkg.Scope().Lookup(ti.Field) == nil {
				return fmt.Errorf("typeinv pureglobal %s: no such package-level variable in %s", ti.Field, ti.Pkg)
			}
			sh.pureFuncField["G:"+pkg.Path()+"."+ti.Field] = true
			continue
		}
		t, err := w.resolveType(pkg, ti.Type)
		if err != nil {
			return fmt.Errorf("typeinv %s.%s: %v", ti.Type, ti.Field, err)
		}
		st, ok := t.Underlying().(*types.Struct)
		if !ok {
			return fmt.Errorf("typeinv %s: not a struct", ti.Type)
		}
		idx := -1
		for i := 0; i < st.NumFields(); i++ {
			if st.Field(i).Name() == ti.Field {
				idx = i
			}
		}
		if idx < 0 {
			return fmt.Errorf("typeinv %s: no field %s", ti.Type, ti.Field)
		}
		key := w.fieldHeapKey(t, idx)
		switch ti.Kind {
		case "nonnil":
			sh.nonNilField[key] = true
		case "elems_nonnil":
			sh.elemsNonNil[key] = true
		case "mapvals_nonnil":
			sh.mapValsNonNil[key] = true
		case "purefunc":
			// the function value stored in this field (injected logger, clock ...) has no effect on emulator state
			sh.pureFuncField[key] = true
		default:
			return fmt.Errorf("typeinv: unknown kind %s", ti.Kind)
		}
	}
	for _, g := range cs.Guards {
		pkg := pkgByName(g.Pkg)
		t, err := w.resolveType(pkg, g.Type)
		if err != nil {
			return fmt.Errorf("guarded_by %s: %v", g.Type, err)
		}
		st, ok := t.Underlying().(*types.Struct)
		if !ok {
			return fmt.Errorf("guarded_by %s: not a struct", g.Type)
		}
		gi := &guardInfo{decl: g, structTyp: t, fieldIdx: -1, lockIdx: -1, reads: map[string]bool{}, writes: map[string]bool{}}
		for i := 0; i < st.NumFields(); i++ {
			if st.Field(i).Name() == g.Field {
				gi.fieldIdx = i
			}
			if st.Field(i).Name() == g.Lock && (g.LockType == "" || g.LockType == g.Type) {
				gi.lockIdx = i
			}
		}
		if g.LockType != "" && g.LockType != g.Type {
			lt, err := w.resolveType(pkg, g.LockType)
			if err != nil {
				return fmt.Errorf("guarded_by lock type %s: %v", g.LockType, err)
			}
			lst, ok := lt.Underlying().(*types.Struct)
			if !ok {
				return fmt.Errorf("guarded_by lock type %s: not a struct", g.LockType)
			}
			for i := 0; i < lst.NumFields(); i++ {
				if lst.Field(i).Name() == g.Lock {
					gi.lockIdx = i
				}
			}
			gi.foreign = true
			gi.lockStruct = lt
		}
		if gi.fieldIdx < 0 || gi.lockIdx < 0 {
			return fmt.Errorf("guarded_by %s.%s by %s: field not found", g.Type, g.Field, g.Lock)
		}
		for _, m := range g.Reads {
			gi.reads[m] = true
		}
		for _, m := range g.Writes {
			gi.writes[m] = true
		}
		sh.guards[w.fieldHeapKey(t, gi.fieldIdx)] = gi
	}
	// closures stored into function-typed struct fields that have a `funcfield` contract
	hasFieldContracts := false
	for k := range cs.ByKey {
		if strings.Contains(k, ".field:") {
			hasFieldContracts = true
		}
	}
	if hasFieldContracts {
		var closureOf func(v ssa.Value, depth int) []*ssa.Function
		closureOf = func(v ssa.Value, depth int) []*ssa.Function {
			if depth > 4 {
				return nil
			}
			switch x := v.(type) {
			case *ssa.MakeClosure:
				if f, ok := x.Fn.(*ssa.Function); ok {
					return []*ssa.Function{f}
				}
			case *ssa.Function:
				return []*ssa.Function{x}
			case *ssa.ChangeType:
				return closureOf(x.X, depth+1)
			case *ssa.Phi:
				var out []*ssa.Function
				for _, e := range x.Edges {
					out = append(out, closureOf(e, depth+1)...)
				}
				return out
			case *ssa.UnOp:
				if al, ok := x.X.(*ssa.Alloc); ok && x.Op == token.MUL {
					var out []*ssa.Function
					if refs := al.Referrers(); refs != nil {
						for _, r := range *refs {
							if st, ok := r.(*ssa.Store); ok && st.Addr == al {
								out = append(out, closureOf(st.Val, depth+1)...)
							}
						}
					}
					return out
				}
			}
			return nil
		}
		for _, fn := range sh.repoFuncs {
			for _, b := range fn.Blocks {
				for _, in := range b.Instrs {
					st, ok := in.(*ssa.Store)
					if !ok {
						continue
					}
					fa, ok := st.Addr.(*ssa.FieldAddr)
					if !ok {
						continue
					}
					stt, ok := derefType(fa.X.Type()).Underlying().(*types.Struct)
					if !ok {
						continue
					}
					nt, ok := derefType(fa.X.Type()).(*types.Named)
					if !ok || nt.Obj().Pkg() == nil {
						continue
					}
					key := nt.Obj().Pkg().Name() + ".field:" + nt.Obj().Name() + "." + stt.Field(fa.Field).Name()
					if cs.ByKey[key] == nil {
						continue
					}
					for _, f := range closureOf(st.Val, 0) {
						sh.fieldOfClosure[f] = key
					}
				}
			}
		}
	}
	for _, fn := range sh.repoFuncs {
		sh.mayLockMemo[fn] = sh.mayLockRec(fn, map[*ssa.Function]bool{})
	}
	return nil
}
