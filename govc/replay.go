package main

type replayResult struct {
	Outcome string `json:"outcome"` // REPRODUCED | NOT-REPRODUCED | NO-MODEL | UNSUPPORTED
	Model   string `json:"model,omitempty"`
	Inputs  string `json:"inputs,omitempty"`
	Test    string `json:"test_source,omitempty"`
	Output  string `json:"test_output,omitempty"`
	Reason  string `json:"reason,omitempty"`
}

func tryReplay(r *Report, o *Obligation) *replayResult {
	return &replayResult{Outcome: "UNSUPPORTED", Reason: "counter-example concretisation not implemented for this function shape"}
}
