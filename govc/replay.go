package main

import (
	"bufio"
	"encoding/json"
	"fmt"
	"go/types"
	"io"
	"os"
	"os/exec"
	"path/filepath"
	"sort"
	"strconv"
	"strings"
	"time"

	"golang.org/x/tools/go/ssa"
)

type replayResult struct {
	Outcome string `json:"outcome"` // REPRODUCED | NOT-REPRODUCED | NO-MODEL | UNSUPPORTED
	Inputs  string `json:"inputs,omitempty"`
	Test    string `json:"test_source,omitempty"`
	Output  string `json:"test_output,omitempty"`
	Reason  string `json:"reason,omitempty"`
	Cmd     string `json:"command,omitempty"`
}

// modelSession is an interactive z3 process holding a satisfying model of one obligation.
type modelSession struct {
	cmd *exec.Cmd
	in  io.WriteCloser
	out *bufio.Reader
}

func startModelSession(smt string) (*modelSession, error) {
	cmd := exec.Command("z3-new", "-in", "-T:30")
	in, err := cmd.StdinPipe()
	if err != nil {
		return nil, err
	}
	outp, err := cmd.StdoutPipe()
	if err != nil {
		return nil, err
	}
	cmd.Stderr = cmd.Stdout
	if err := cmd.Start(); err != nil {
		return nil, err
	}
	ms := &modelSession{cmd: cmd, in: in, out: bufio.NewReader(outp)}
	if _, err := io.WriteString(in, smt+"\n"); err != nil {
		ms.close()
		return nil, err
	}
	// read until the check-sat answer
	deadline := time.Now().Add(40 * time.Second)
	for time.Now().Before(deadline) {
		line, err := ms.out.ReadString('\n')
		if err != nil {
			ms.close()
			return nil, fmt.Errorf("solver ended: %v", err)
		}
		line = strings.TrimSpace(line)
		switch line {
		case "sat":
			return ms, nil
		case "unsat", "unknown", "timeout":
			ms.close()
			return nil, fmt.Errorf("no model (%s)", line)
		}
	}
	ms.close()
	return nil, fmt.Errorf("no answer")
}

func (ms *modelSession) close() {
	ms.in.Close()
	ms.cmd.Process.Kill()
	ms.cmd.Wait()
}

// value evaluates a term in the model and returns the printed value.
func (ms *modelSession) value(term string) (string, error) {
	if _, err := io.WriteString(ms.in, "(get-value ("+term+"))\n"); err != nil {
		return "", err
	}
	// read one balanced s-expression
	var sb strings.Builder
	depth := 0
	started := false
	for {
		r, _, err := ms.out.ReadRune()
		if err != nil {
			return "", err
		}
		if !started {
			if r == '(' {
				started = true
				depth = 1
				sb.WriteRune(r)
			}
			continue
		}
		sb.WriteRune(r)
		if r == '(' {
			depth++
		} else if r == ')' {
			depth--
			if depth == 0 {
				break
			}
		}
	}
	s := sb.String()
	if strings.HasPrefix(s, "(error") {
		return "", fmt.Errorf("%s", s)
	}
	// ((term value)) -> value : strip the echoed term
	s = strings.TrimSpace(s)
	s = strings.TrimPrefix(s, "((")
	s = strings.TrimSuffix(s, "))")
	// the echoed term may be normalised by z3; find the value as the last top-level s-expr
	return lastSexpr(s), nil
}

func lastSexpr(s string) string {
	s = strings.TrimSpace(s)
	if s == "" {
		return s
	}
	if s[len(s)-1] != ')' {
		i := strings.LastIndexAny(s, " \n\t")
		return s[i+1:]
	}
	depth := 0
	for i := len(s) - 1; i >= 0; i-- {
		switch s[i] {
		case ')':
			depth++
		case '(':
			depth--
			if depth == 0 {
				return s[i:]
			}
		}
	}
	return s
}

func (ms *modelSession) intValue(term string) (int64, bool) {
	v, err := ms.value(term)
	if err != nil {
		return 0, false
	}
	v = strings.TrimSpace(v)
	neg := false
	if strings.HasPrefix(v, "(-") {
		neg = true
		v = strings.TrimSpace(strings.TrimSuffix(strings.TrimPrefix(v, "(-"), ")"))
	}
	n, err := strconv.ParseInt(v, 10, 64)
	if err != nil {
		// may exceed int64 (e.g. 2^63): clamp
		if len(v) > 0 && v[0] >= '0' && v[0] <= '9' {
			if neg {
				return -9223372036854775808, true
			}
			return 9223372036854775807, true
		}
		return 0, false
	}
	if neg {
		n = -n
	}
	return n, true
}

func (ms *modelSession) boolValue(term string) (bool, bool) {
	v, err := ms.value(term)
	if err != nil {
		return false, false
	}
	v = strings.TrimSpace(v)
	return v == "true", v == "true" || v == "false"
}

// concretiser turns model values into Go source expressions.
type concretiser struct {
	u       *Unit
	ms      *modelSession
	imports map[string]string // path -> alias
	pkg     *types.Package    // package of the test (in-package)
	depth   int
	err     string
	seenObj map[string]int
}

func (c *concretiser) qual(p *types.Package) string {
	if p == c.pkg {
		return ""
	}
	if a, ok := c.imports[p.Path()]; ok {
		return a
	}
	a := fmt.Sprintf("p%d", len(c.imports))
	c.imports[p.Path()] = a
	return a
}

func (c *concretiser) typeStr(t types.Type) string {
	return types.TypeString(t, c.qual)
}

func (c *concretiser) heapSym(key string) string {
	return quoteSym(fmt.Sprintf("H!%s!0", key))
}

// goValue builds a Go expression for a value of type t whose SMT term is term.
func (c *concretiser) goValue(t types.Type, term string) string {
	w := c.u.w
	c.depth++
	defer func() { c.depth-- }()
	if c.depth > 8 {
		return c.zeroExpr(t)
	}
	switch ut := t.Underlying().(type) {
	case *types.Basic:
		switch {
		case ut.Info()&types.IsBoolean != 0:
			b, _ := c.ms.boolValue(term)
			return fmt.Sprintf("%s(%v)", c.typeStr(t), b)
		case ut.Info()&types.IsInteger != 0:
			n, _ := c.ms.intValue(term)
			if n == -9223372036854775808 {
				return fmt.Sprintf("%s(-9223372036854775807 - 1)", c.typeStr(t))
			}
			return fmt.Sprintf("%s(%d)", c.typeStr(t), n)
		case ut.Info()&types.IsString != 0:
			return fmt.Sprintf("%s(%s)", c.typeStr(t), c.strLiteral(term))
		case ut.Info()&types.IsFloat != 0:
			return fmt.Sprintf("%s(0)", c.typeStr(t))
		}
	case *types.Pointer:
		isNil, ok := c.ms.boolValue("(= " + term + " nilloc)")
		if !ok || isNil {
			return "nil"
		}
		if st, isStruct := ut.Elem().Underlying().(*types.Struct); isStruct {
			objv, _ := c.ms.value("(obj " + term + ")")
			key := objv + "/" + c.typeStr(ut.Elem())
			if c.seenObj[key] > 0 {
				return "nil /* cyclic/shared object not reconstructed */"
			}
			c.seenObj[key]++
			defer func() { c.seenObj[key]-- }()
			var fs []string
			for i := 0; i < st.NumFields(); i++ {
				f := st.Field(i)
				if !f.Exported() && (f.Pkg() != c.pkg) {
					continue
				}
				if isComposite(f.Type()) {
					continue
				}
				hk := w.fieldHeapKey(ut.Elem(), i)
				if w.addrTaken[hk] {
					continue
				}
				if _, known := w.heapSorts[hk]; !known {
					continue // never accessed by the verified code: irrelevant
				}
				fv := c.goValue(f.Type(), fmt.Sprintf("(select %s %s)", c.heapSym(hk), term))
				if fv == c.zeroExpr(f.Type()) {
					continue
				}
				fs = append(fs, fmt.Sprintf("%s: %s", f.Name(), fv))
			}
			return fmt.Sprintf("&%s{%s}", c.typeStr(ut.Elem()), strings.Join(fs, ", "))
		}
		return "nil"
	case *types.Slice:
		if isByte(ut.Elem()) {
			isNil, _ := c.ms.boolValue("(bnil " + term + ")")
			if isNil {
				return "nil"
			}
			return fmt.Sprintf("%s(%s)", c.typeStr(t), c.strLiteral("(bstr "+term+")"))
		}
		n, ok := c.ms.intValue("(slen " + term + ")")
		if !ok || n <= 0 {
			isNil, _ := c.ms.boolValue("(= (sptr " + term + ") nilloc)")
			if isNil {
				return "nil"
			}
			return fmt.Sprintf("%s{}", c.typeStr(t))
		}
		if n > 6 {
			n = 6
			c.err = "slice longer than 6 elements truncated"
		}
		if isComposite(ut.Elem()) {
			c.err = "slice of composite elements not reconstructed"
			return fmt.Sprintf("make(%s, %d)", c.typeStr(t), n)
		}
		hk := w.typeHeapKey(ut.Elem())
		var es []string
		for i := int64(0); i < n; i++ {
			es = append(es, c.goValue(ut.Elem(), fmt.Sprintf("(select %s (elem (sptr %s) %d))", c.heapSym(hk), term, i)))
		}
		return fmt.Sprintf("%s{%s}", c.typeStr(t), strings.Join(es, ", "))
	case *types.Interface:
		tag, ok := c.ms.intValue("(itag " + term + ")")
		if !ok || tag <= 0 || int(tag) >= len(w.tagType) {
			return "nil"
		}
		ct := w.tagType[tag]
		if ct == nil {
			return "nil"
		}
		if w.sortOf(ct) == SLoc {
			return c.goValue(ct, "(ival "+term+")")
		}
		return "nil"
	case *types.Struct:
		var fs []string
		for i := 0; i < ut.NumFields(); i++ {
			f := ut.Field(i)
			if !f.Exported() && f.Pkg() != c.pkg {
				continue
			}
			fv := c.goValue(f.Type(), fmt.Sprintf("(%s %s)", w.structAcc(t, i), term))
			fs = append(fs, fmt.Sprintf("%s: %s", f.Name(), fv))
		}
		return fmt.Sprintf("%s{%s}", c.typeStr(t), strings.Join(fs, ", "))
	case *types.Map:
		return "nil"
	}
	c.err = "unsupported parameter type " + t.String()
	return c.zeroExpr(t)
}

func (c *concretiser) zeroExpr(t types.Type) string {
	switch ut := t.Underlying().(type) {
	case *types.Basic:
		switch {
		case ut.Info()&types.IsBoolean != 0:
			return fmt.Sprintf("%s(false)", c.typeStr(t))
		case ut.Info()&types.IsString != 0:
			return fmt.Sprintf("%s(\"\")", c.typeStr(t))
		default:
			return fmt.Sprintf("%s(0)", c.typeStr(t))
		}
	case *types.Struct:
		return c.typeStr(t) + "{}"
	}
	return "nil"
}

func (c *concretiser) strLiteral(term string) string {
	n, ok := c.ms.intValue("(s.len " + term + ")")
	if !ok || n <= 0 {
		return `""`
	}
	if n > 48 {
		n = 48
		c.err = "string longer than 48 bytes truncated"
	}
	var sb strings.Builder
	sb.WriteByte('"')
	for i := int64(0); i < n; i++ {
		b, _ := c.ms.intValue(fmt.Sprintf("(s.at %s %d)", term, i))
		if b < 0 || b > 255 {
			b = 'x'
		}
		fmt.Fprintf(&sb, "\\x%02x", b)
	}
	sb.WriteByte('"')
	return sb.String()
}

// tryReplay concretises the solver's counterexample and runs it against the real code.
func tryReplay(r *Report, o *Obligation) *replayResult {
	if o.Status != "violated" {
		return &replayResult{Outcome: "NO-MODEL", Reason: "the solver gave no model (" + o.Status + ")"}
	}
	u := o.unit
	if u == nil {
		return &replayResult{Outcome: "UNSUPPORTED", Reason: "theory lemma"}
	}
	fn := u.root
	if o.In != u.rootKey && !safetyKinds[o.Kind] {
		return &replayResult{Outcome: "UNSUPPORTED", Reason: "obligation inside an inlined callee"}
	}
	if !panicKinds[o.Kind] {
		return &replayResult{Outcome: "UNSUPPORTED", Reason: "replay is implemented for panic-type obligations only (the violated clause is not executable here)"}
	}
	for _, p := range fn.Params {
		switch p.Type().Underlying().(type) {
		case *types.Signature, *types.Chan:
			return &replayResult{Outcome: "UNSUPPORTED", Reason: "function-typed or channel parameter"}
		}
	}
	ms, err := startModelSession(o.smtFile(30000))
	if err != nil {
		return &replayResult{Outcome: "NO-MODEL", Reason: err.Error()}
	}
	defer ms.close()
	pkg := fn.Pkg.Pkg
	c := &concretiser{u: u, ms: ms, imports: map[string]string{}, pkg: pkg, seenObj: map[string]int{}}
	var args []string
	var decls []string
	for i, p := range fn.Params {
		term := quoteSym("p:" + p.Name())
		v := c.goValue(p.Type(), term)
		decls = append(decls, fmt.Sprintf("\targ%d := %s", i, v))
		args = append(args, fmt.Sprintf("arg%d", i))
	}
	call := ""
	if fn.Signature.Recv() != nil {
		call = fmt.Sprintf("%s.%s(%s)", args[0], fn.Name(), strings.Join(args[1:], ", "))
	} else {
		call = fmt.Sprintf("%s(%s)", fn.Name(), strings.Join(args, ", "))
	}
	var imps []string
	for path, alias := range c.imports {
		imps = append(imps, fmt.Sprintf("\t%s %q", alias, path))
	}
	sort.Strings(imps)
	src := fmt.Sprintf(`package %s

import (
	"fmt"
	"testing"
%s
)

// generated by govc from the solver's counter-example for obligation:
//   %s
func TestVerifReplay(t *testing.T) {
	defer func() {
		if r := recover(); r != nil {
			fmt.Println("VERIF-REPLAY: PANIC:", r)
		}
	}()
%s
	%s
	fmt.Println("VERIF-REPLAY: RETURNED")
}
`, pkg.Name(), strings.Join(imps, "\n"), o.Name, strings.Join(decls, "\n"), call)
	// unused variable protection: results are discarded by calling as a statement; multi-value calls are fine as statements
	res := &replayResult{Inputs: strings.Join(decls, "\n"), Test: src}
	if c.err != "" {
		res.Reason = c.err
	}
	out, cmdline, err := runReplayTest(r.Repo, pkg.Path(), fn, src)
	res.Output = trimOutput(out)
	res.Cmd = cmdline
	switch {
	case strings.Contains(out, "VERIF-REPLAY: PANIC:"):
		res.Outcome = "REPRODUCED"
	case strings.Contains(out, "VERIF-REPLAY: RETURNED"):
		res.Outcome = "NOT-REPRODUCED"
	default:
		res.Outcome = "UNSUPPORTED"
		if err != nil {
			res.Reason = "replay test did not run: " + err.Error()
		}
	}
	return res
}

var panicKinds = map[string]bool{"nil-deref": true, "index": true, "slice-bounds": true, "type-assert": true, "div-zero": true,
	"nil-map-write": true, "neg-make": true, "explicit-panic": true}

// runReplayTest injects the generated test through -overlay and runs it in a scratch harness module.
func runReplayTest(repo, pkgPath string, fn *ssa.Function, src string) (string, string, error) {
	scratch, err := os.MkdirTemp(os.Getenv("VERIF_SCRATCH"), "govcreplay")
	if err != nil {
		return "", "", err
	}
	defer os.RemoveAll(scratch)
	var mod *struct {
		Dir  string
		Path string
		Pkgs []string
	}
	for i := range repoModules {
		if strings.HasPrefix(pkgPath, repoModules[i].Path) {
			m := repoModules[i]
			mod = &struct {
				Dir  string
				Path string
				Pkgs []string
			}{m.Dir, m.Path, m.Pkgs}
		}
	}
	if mod == nil {
		return "", "", fmt.Errorf("no module for %s", pkgPath)
	}
	hdir, err := makeHarness(scratch, repo, mod.Dir, mod.Path)
	if err != nil {
		return "", "", err
	}
	pkgDir := filepath.Join(repo, mod.Dir, strings.TrimPrefix(strings.TrimPrefix(pkgPath, mod.Path), "/"))
	testFile := filepath.Join(scratch, "zz_verif_replay_test.go")
	if err := os.WriteFile(testFile, []byte(src), 0o666); err != nil {
		return "", "", err
	}
	ov := map[string]map[string]string{"Replace": {filepath.Join(pkgDir, "zz_verif_replay_test.go"): testFile}}
	ovb, _ := json.Marshal(ov)
	ovFile := filepath.Join(scratch, "overlay.json")
	os.WriteFile(ovFile, ovb, 0o666)
	args := []string{"test", "-overlay", ovFile, "-vet=off", "-count=1", "-timeout", "60s", "-run", "^TestVerifReplay$", "-v", pkgPath}
	cmd := exec.Command("go", args...)
	cmd.Dir = hdir
	cmd.Env = goEnv()
	out, err := cmd.CombinedOutput()
	return string(out), "cd <harness module replacing " + mod.Path + "> && go " + strings.Join(args, " "), err
}
