package main

import (
	"fmt"
	"strings"
)

// Sort is the name of an SMT sort.
type Sort string

const (
	SInt   Sort = "Int"
	SBool  Sort = "Bool"
	SReal  Sort = "Real"
	SLoc   Sort = "Loc"
	SStr   Sort = "Str"
	SBytes Sort = "Bytes"
	SSlice Sort = "Slice"
	SIface Sort = "Iface"
	SFunc  Sort = "Fn"
	SUnit  Sort = "Unit"
)

func ArraySort(idx, val Sort) Sort { return Sort("(Array " + string(idx) + " " + string(val) + ")") }

// Term is an SMT-LIB term with its sort.
type Term struct {
	S    string
	Sort Sort
}

func (t Term) String() string { return t.S }
func (t Term) IsZero() bool    { return t.S == "" }

func mk(sort Sort, op string, args ...Term) Term {
	var sb strings.Builder
	sb.WriteByte('(')
	sb.WriteString(op)
	for _, a := range args {
		sb.WriteByte(' ')
		sb.WriteString(a.S)
	}
	sb.WriteByte(')')
	return Term{sb.String(), sort}
}

func Sym(name string, sort Sort) Term { return Term{name, sort} }

var (
	True  = Term{"true", SBool}
	False = Term{"false", SBool}
	NilLoc = Term{"nilloc", SLoc}
)

func IntLit(n int64) Term {
	if n < 0 {
		if n == -9223372036854775808 {
			return Term{"(- 9223372036854775808)", SInt}
		}
		return Term{fmt.Sprintf("(- %d)", -n), SInt}
	}
	return Term{fmt.Sprintf("%d", n), SInt}
}

func IntLitStr(s string) Term { // decimal, possibly negative, arbitrary precision
	if strings.HasPrefix(s, "-") {
		return Term{"(- " + s[1:] + ")", SInt}
	}
	return Term{s, SInt}
}

func BoolLit(b bool) Term {
	if b {
		return True
	}
	return False
}

func Not(a Term) Term {
	switch a.S {
	case "true":
		return False
	case "false":
		return True
	}
	if strings.HasPrefix(a.S, "(not ") {
		return Term{a.S[5 : len(a.S)-1], SBool}
	}
	return mk(SBool, "not", a)
}

func And(as ...Term) Term {
	var xs []Term
	for _, a := range as {
		if a.S == "true" {
			continue
		}
		if a.S == "false" {
			return False
		}
		xs = append(xs, a)
	}
	switch len(xs) {
	case 0:
		return True
	case 1:
		return xs[0]
	}
	return mk(SBool, "and", xs...)
}

func Or(as ...Term) Term {
	var xs []Term
	for _, a := range as {
		if a.S == "false" {
			continue
		}
		if a.S == "true" {
			return True
		}
		xs = append(xs, a)
	}
	switch len(xs) {
	case 0:
		return False
	case 1:
		return xs[0]
	}
	return mk(SBool, "or", xs...)
}

func Implies(a, b Term) Term {
	if a.S == "true" {
		return b
	}
	if a.S == "false" || b.S == "true" {
		return True
	}
	return mk(SBool, "=>", a, b)
}

func Eq(a, b Term) Term {
	if a.S == b.S {
		return True
	}
	return mk(SBool, "=", a, b)
}
func Neq(a, b Term) Term { return Not(Eq(a, b)) }

func Ite(c, a, b Term) Term {
	if c.S == "true" {
		return a
	}
	if c.S == "false" {
		return b
	}
	if a.S == b.S {
		return a
	}
	return mk(a.Sort, "ite", c, a, b)
}

func Add(a, b Term) Term { return mk(SInt, "+", a, b) }
func Sub(a, b Term) Term { return mk(SInt, "-", a, b) }
func Mul(a, b Term) Term { return mk(SInt, "*", a, b) }
func Lt(a, b Term) Term  { return mk(SBool, "<", a, b) }
func Le(a, b Term) Term  { return mk(SBool, "<=", a, b) }
func Gt(a, b Term) Term  { return mk(SBool, ">", a, b) }
func Ge(a, b Term) Term  { return mk(SBool, ">=", a, b) }

func Select(arr, idx Term, valSort Sort) Term { return mk(valSort, "select", arr, idx) }
func Store(arr, idx, val Term) Term          { return mk(arr.Sort, "store", arr, idx, val) }

// Loc helpers
func MkLoc(obj, off Term) Term { return mk(SLoc, "loc", obj, off) }
func Obj(l Term) Term          { return mk(SInt, "obj", l) }
func Off(l Term) Term          { return mk(SInt, "off", l) }
func LocAdd(l Term, k Term) Term {
	if k.S == "0" {
		return l
	}
	return MkLoc(Obj(l), Add(Off(l), k))
}

// Elem is the address of the cell at offset k (in cells) from base: an uninterpreted function with the
// defining axiom elem(b,k) = loc(obj b, off b + k), so that quantified facts about slice elements have a
// syntactic trigger that survives arithmetic normalisation.
func Elem(base, k Term) Term {
	// (no shortcut for k == 0: quantified element facts are triggered on (elem base k), so element 0 needs a ground
	// elem term as well; the defining axiom gives elem(b, 0) = b)
	return mk(SLoc, "elem", base, k)
}

// ElemS is the address of element idx of an array of elements that occupy sz cells each. For sz > 1 the index is
// kept syntactic through elemn(base, idx, sz) (axiom: elemn(b,i,n) = loc(obj b, off b + i*n)).
func ElemS(base, idx Term, sz int64) Term {
	if sz == 1 {
		return Elem(base, idx)
	}
	return mk(SLoc, "elemn", base, idx, IntLit(sz))
}

// Slice helpers
func MkSlice(ptr, ln, cp Term) Term { return mk(SSlice, "slice", ptr, ln, cp) }
func SPtr(s Term) Term              { return mk(SLoc, "sptr", s) }
func SLen(s Term) Term              { return mk(SInt, "slen", s) }
func SCap(s Term) Term              { return mk(SInt, "scap", s) }

var NilSlice = Term{"nilslice", SSlice}

// Iface helpers
func MkIface(tag, val Term) Term { return mk(SIface, "iface", tag, val) }
func ITag(i Term) Term           { return mk(SInt, "itag", i) }
func IVal(i Term) Term           { return mk(SLoc, "ival", i) }

var NilIface = Term{"niliface", SIface}

// Bytes helpers
func MkBytes(isnil, s Term) Term { return mk(SBytes, "bytes", isnil, s) }
func BIsNil(b Term) Term         { return mk(SBool, "bnil", b) }
func BStr(b Term) Term           { return mk(SStr, "bstr", b) }

var NilBytes = Term{"nilbytes", SBytes}

// Str helpers (uninterpreted sort with functions; axioms in the prelude)
func StrLen(s Term) Term       { return mk(SInt, "s.len", s) }
func StrAt(s, i Term) Term     { return mk(SInt, "s.at", s, i) }
func StrCat(a, b Term) Term    { return mk(SStr, "s.cat", a, b) }
func StrSub(s, lo, hi Term) Term { return mk(SStr, "s.sub", s, lo, hi) }
func StrLt(a, b Term) Term     { return mk(SBool, "s.lt", a, b) }
func StrPrefix(p, s Term) Term { return mk(SBool, "s.prefix", p, s) } // p is a prefix of s

func Forall(vars []Term, body Term, patterns ...[]Term) Term {
	if len(vars) == 0 {
		return body
	}
	var sb strings.Builder
	sb.WriteString("(forall (")
	for _, v := range vars {
		fmt.Fprintf(&sb, "(%s %s)", v.S, v.Sort)
	}
	sb.WriteString(") ")
	for _, p := range patterns {
		for _, t := range p {
			for _, bad := range []string{"(ite ", "(and ", "(or ", "(not ", "(= ", "(=> ", "(< ", "(<= ", "(> ", "(>= ", "(distinct "} {
				if strings.Contains(t.S, bad) {
					patterns = nil
					break
				}
			}
			if patterns == nil {
				break
			}
		}
	}
	if len(patterns) > 0 {
		sb.WriteString("(! ")
		sb.WriteString(body.S)
		for _, p := range patterns {
			sb.WriteString(" :pattern (")
			for i, t := range p {
				if i > 0 {
					sb.WriteByte(' ')
				}
				sb.WriteString(t.S)
			}
			sb.WriteString(")")
		}
		sb.WriteString(")")
	} else {
		sb.WriteString(body.S)
	}
	sb.WriteString(")")
	return Term{sb.String(), SBool}
}

func Exists(vars []Term, body Term) Term {
	if len(vars) == 0 {
		return body
	}
	var sb strings.Builder
	sb.WriteString("(exists (")
	for _, v := range vars {
		fmt.Fprintf(&sb, "(%s %s)", v.S, v.Sort)
	}
	sb.WriteString(") ")
	sb.WriteString(body.S)
	sb.WriteString(")")
	return Term{sb.String(), SBool}
}

// quoteSym makes an SMT-LIB quoted symbol out of an arbitrary string.
func quoteSym(s string) string {
	s = strings.ReplaceAll(s, "|", "!")
	s = strings.ReplaceAll(s, "\\", "!")
	simple := true
	for _, c := range s {
		if !(c >= 'a' && c <= 'z' || c >= 'A' && c <= 'Z' || c >= '0' && c <= '9' || c == '_' || c == '.' || c == '!' || c == '$') {
			simple = false
			break
		}
	}
	if simple && len(s) > 0 && !(s[0] >= '0' && s[0] <= '9') {
		return s
	}
	return "|" + s + "|"
}
