package main

import (
	"fmt"
	"go/constant"
	"go/token"
	"go/types"
	"math/big"

	"golang.org/x/tools/go/ssa"
)

// val returns the term of an SSA value in this frame.
func (fr *Frame) val(v ssa.Value) Term {
	u := fr.u
	switch x := v.(type) {
	case *ssa.Const:
		return fr.constTerm(x)
	case *ssa.Global:
		return u.w.globalLoc(x)
	case *ssa.Function:
		return u.funcValue(x)
	case *ssa.Builtin:
		return NilLoc
	}
	if t, ok := fr.regs[v]; ok {
		return t
	}
	// unknown (e.g. value defined in an unreachable/unsupported instruction): fresh
	t := u.fresh(fr.vname(v)+"?", u.w.sortOf(v.Type()))
	fr.regs[v] = t
	u.note("value %s of %s used before definition (unsupported instruction?)", v.Name(), fr.key)
	return t
}

func (w *World) globalLoc(g *ssa.Global) Term {
	name := "glob:" + g.Pkg.Pkg.Path() + "." + g.Name()
	id, ok := w.globalIDs[name]
	if !ok {
		id = len(w.globalIDs) + 1
		w.globalIDs[name] = id
	}
	return MkLoc(IntLit(int64(-id)), IntLit(0))
}

func (u *Unit) funcValue(f *ssa.Function) Term {
	name := "fn:" + f.String()
	id, ok := u.w.globalIDs[name]
	if !ok {
		id = len(u.w.globalIDs) + 1
		u.w.globalIDs[name] = id
	}
	t := MkLoc(IntLit(int64(-id)), IntLit(0))
	if _, seen := u.fnConsts[t.S]; !seen {
		u.fnConsts[t.S] = f
		u.fnConstOrder = append(u.fnConstOrder, t)
	}
	return t
}

func (fr *Frame) constTerm(c *ssa.Const) Term {
	w := fr.u.w
	t := c.Type()
	if c.Value == nil {
		return w.zero(t)
	}
	switch c.Value.Kind() {
	case constant.Bool:
		return BoolLit(constant.BoolVal(c.Value))
	case constant.String:
		s := w.strLit(constant.StringVal(c.Value))
		if isByteSlice(t) {
			return MkBytes(False, s)
		}
		return s
	case constant.Int:
		if b, ok := t.Underlying().(*types.Basic); ok && b.Info()&types.IsFloat != 0 {
			return Term{c.Value.ExactString() + ".0", SReal}
		}
		return IntLitStr(c.Value.ExactString())
	case constant.Float:
		if b, ok := t.Underlying().(*types.Basic); ok && b.Info()&types.IsInteger != 0 {
			if i, ok := constant.Int64Val(constant.ToInt(c.Value)); ok {
				return IntLit(i)
			}
		}
		r, _ := new(big.Rat).SetString(c.Value.ExactString())
		if r == nil {
			return fr.u.fresh("real", SReal)
		}
		num, den := r.Num(), r.Denom()
		if num.Sign() < 0 {
			return Term{fmt.Sprintf("(- (/ %s.0 %s.0))", new(big.Int).Neg(num).String(), den.String()), SReal}
		}
		return Term{fmt.Sprintf("(/ %s.0 %s.0)", num.String(), den.String()), SReal}
	}
	return fr.u.fresh("const", w.sortOf(t))
}

// cell describes how a memory cell is addressed: heap key, index, value type.
type cell struct {
	key string
	idx Term
	typ types.Type
}

// isComposite: struct or array types occupy several cells.
func isComposite(t types.Type) bool {
	switch t.Underlying().(type) {
	case *types.Struct, *types.Array:
		return true
	}
	return false
}

// leafCell computes the cell for a leaf-typed address value.
func (fr *Frame) leafCell(addr ssa.Value) cell {
	w := fr.u.w
	et := derefType(addr.Type())
	if fa, ok := addr.(*ssa.FieldAddr); ok {
		st := derefType(fa.X.Type())
		key := w.fieldHeapKey(st, fa.Field)
		if !w.addrTaken[key] {
			return cell{key, fr.val(fa.X), et}
		}
	}
	return cell{w.typeHeapKey(et), fr.val(addr), et}
}

// cellAt: leaf cell of type t at address term a that was NOT obtained from a syntactic FieldAddr.
func (w *World) typeCell(t types.Type, a Term) cell {
	return cell{w.typeHeapKey(t), a, t}
}

// loadAt loads a value of type t from the memory at address a. If fieldOf!=nil the leaf is field i of that struct.
func (fr *Frame) loadLeaf(st *State, c cell) Term {
	u := fr.u
	vs := u.w.sortOf(c.typ)
	return Select(u.heap(st, c.key, vs), c.idx, vs)
}

func (fr *Frame) storeLeaf(st *State, c cell, v Term) {
	u := fr.u
	vs := u.w.sortOf(c.typ)
	h := u.heap(st, c.key, vs)
	u.setHeap(st, c.key, u.define("H", Store(h, c.idx, v)))
}

// fieldCell returns the cell of leaf field i of the struct (type st) located at base.
func (fr *Frame) fieldCell(stType types.Type, base Term, i int) cell {
	w := fr.u.w
	s := stType.Underlying().(*types.Struct)
	ft := s.Field(i).Type()
	key := w.fieldHeapKey(stType, i)
	if w.addrTaken[key] {
		return cell{w.typeHeapKey(ft), LocAdd(base, IntLit(int64(w.fieldOffset(s, i)))), ft}
	}
	return cell{key, base, ft}
}

// loadValue loads a (possibly composite) value of type t stored at address a.
// leaf!=nil gives the precomputed cell when t is a leaf type.
func (fr *Frame) loadValue(st *State, t types.Type, a Term, leaf *cell) Term {
	w := fr.u.w
	switch ut := t.Underlying().(type) {
	case *types.Struct:
		var fs []Term
		for i := 0; i < ut.NumFields(); i++ {
			ft := ut.Field(i).Type()
			if isComposite(ft) {
				fs = append(fs, fr.loadValue(st, ft, LocAdd(a, IntLit(int64(w.fieldOffset(ut, i)))), nil))
			} else {
				c := fr.fieldCell(t, a, i)
				fs = append(fs, fr.loadLeaf(st, c))
			}
		}
		return w.structMake(t, fs)
	case *types.Array:
		// array value: (Array Int elem) built from the cells; only small constant arrays are expanded
		n := int(ut.Len())
		es := w.sortOf(ut.Elem())
		if n <= 16 && !isComposite(ut.Elem()) {
			arr := w.zero(t)
			for i := 0; i < n; i++ {
				c := w.typeCell(ut.Elem(), LocAdd(a, IntLit(int64(i))))
				arr = Store(arr, IntLit(int64(i)), fr.loadLeaf(st, c))
			}
			return arr
		}
		fr.u.note("load of a large/composite array value in %s is not modelled (fresh value)", fr.key)
		return fr.u.fresh("arr", ArraySort(SInt, es))
	}
	if leaf != nil {
		return fr.loadLeaf(st, *leaf)
	}
	return fr.loadLeaf(st, w.typeCell(t, a))
}

func (fr *Frame) storeValue(st *State, t types.Type, a Term, leaf *cell, v Term, addrVal ssa.Value) {
	w := fr.u.w
	switch ut := t.Underlying().(type) {
	case *types.Struct:
		for i := 0; i < ut.NumFields(); i++ {
			ft := ut.Field(i).Type()
			fv := w.structField(t, v, i)
			if isComposite(ft) {
				fr.storeValue(st, ft, LocAdd(a, IntLit(int64(w.fieldOffset(ut, i)))), nil, fv, addrVal)
			} else {
				c := fr.fieldCell(t, a, i)
				fr.u.recordWrite(fr, addrVal, c.key, c.idx)
				fr.storeLeaf(st, c, fv)
			}
		}
		return
	case *types.Array:
		n := int(ut.Len())
		if n <= 16 && !isComposite(ut.Elem()) {
			for i := 0; i < n; i++ {
				c := w.typeCell(ut.Elem(), LocAdd(a, IntLit(int64(i))))
				fr.u.recordWrite(fr, addrVal, c.key, c.idx)
				fr.storeLeaf(st, c, Select(v, IntLit(int64(i)), w.sortOf(ut.Elem())))
			}
			return
		}
		fr.u.note("store of a large/composite array value in %s is not modelled", fr.key)
		return
	}
	c := w.typeCell(t, a)
	if leaf != nil {
		c = *leaf
	}
	fr.u.recordWrite(fr, addrVal, c.key, c.idx)
	fr.storeLeaf(st, c, v)
}

// zeroInit stores zero values into a freshly allocated object of type t at address a.
func (fr *Frame) zeroInit(st *State, t types.Type, a Term) {
	w := fr.u.w
	switch ut := t.Underlying().(type) {
	case *types.Struct:
		for i := 0; i < ut.NumFields(); i++ {
			ft := ut.Field(i).Type()
			if isComposite(ft) {
				fr.zeroInit(st, ft, LocAdd(a, IntLit(int64(w.fieldOffset(ut, i)))))
			} else {
				c := fr.fieldCell(t, a, i)
				fr.storeLeaf(st, c, w.zero(ft))
			}
		}
		return
	case *types.Array:
		n := int(ut.Len())
		sz := w.sizeOf(ut.Elem())
		if n <= 64 {
			for i := 0; i < n; i++ {
				fr.zeroInit(st, ut.Elem(), LocAdd(a, IntLit(int64(i*sz))))
			}
			return
		}
		fr.u.note("zero-initialisation of large array in %s not modelled", fr.key)
		return
	}
	fr.storeLeaf(st, w.typeCell(t, a), w.zero(t))
}

// newObject allocates a fresh object id.
func (fr *Frame) newObject(st *State) Term {
	u := fr.u
	o := u.define("obj", Add(st.alloc, IntLit(1)))
	if o.S == Add(st.alloc, IntLit(1)).S {
		o = u.fresh("obj", SInt)
		u.assume(True, Eq(o, Add(st.alloc, IntLit(1))))
	}
	st.alloc = o
	return o
}

// assumeTypeInv adds the type invariants of a value of Go type t (ranges, slice header sanity, allocation).
func (fr *Frame) assumeTypeInv(st *State, v Term, t types.Type) {
	u := fr.u
	if lo, hi, ok := intRange(t); ok {
		u.assume(True, And(Le(IntLitStr(lo), v), Le(v, IntLitStr(hi))))
		return
	}
	switch v.Sort {
	case SLoc:
		switch t.Underlying().(type) {
		case *types.Signature:
			return
		}
		u.assume(True, And(Le(Obj(v), st.alloc), Ge(Off(v), IntLit(0))))
		if _, isPtr := t.Underlying().(*types.Pointer); isPtr {
			// pointers are nil or point to an allocated object or a global
			u.assume(True, Or(Eq(v, NilLoc), Neq(Obj(v), IntLit(0))))
		}
	case SSlice:
		u.assume(True, And(Le(IntLit(0), SLen(v)), Le(SLen(v), SCap(v)), Le(Obj(SPtr(v)), st.alloc), Ge(Off(SPtr(v)), IntLit(0)),
			Or(Gt(Obj(SPtr(v)), IntLit(0)), Eq(SCap(v), IntLit(0)))))
	case SBytes:
		u.assume(True, Implies(BIsNil(v), Eq(StrLen(BStr(v)), IntLit(0))))
	case SIface:
		u.assume(True, And(Le(Obj(IVal(v)), st.alloc), Ge(ITag(v), IntLit(0)), Implies(Eq(ITag(v), IntLit(0)), Eq(IVal(v), NilLoc))))
	}
}

func (fr *Frame) setReg(v ssa.Value, t Term) {
	fr.regs[v] = fr.u.define(fr.vname(v), t)
}

// execInstr executes one non-terminator instruction.
func (fr *Frame) execInstr(in ssa.Instruction, st *State) *State {
	u := fr.u
	w := u.w
	switch x := in.(type) {
	case *ssa.DebugRef:
		name := ""
		switch e := x.Expr.(type) {
		case interface{ String() string }:
			_ = e
		}
		if id, ok := x.Expr.(interface{ End() token.Pos }); ok {
			_ = id
		}
		if obj := x.Object(); obj != nil {
			name = obj.Name()
			if v, isVar := obj.(*types.Var); isVar && v.IsField() {
				name = "" // a field selector is not a local variable
			}
			if _, isVar := obj.(*types.Var); !isVar {
				name = "" // functions, types, packages
			}
			if name != "" && name != "_" {
				if old, has := st.env[name]; has && old.isAddr && !x.IsAddr && types.Identical(old.typ, obj.Type()) {
					// the variable is addressable (it lives in a cell): a value DebugRef (e.g. of its initialiser) must not
					// replace the cell binding, otherwise contracts would read a stale constant instead of the variable
					return st
				}
				st.env[name] = envEntry{val: fr.val(x.X), typ: obj.Type(), isAddr: x.IsAddr}
			}
		}
		return st
	case *ssa.Alloc:
		o := fr.newObject(st)
		a := MkLoc(o, IntLit(0))
		fr.zeroInit(st, derefType(x.Type()), a)
		fr.setReg(x, a)
		if wo := u.writeOnceCell(x); (!u.allocEscapes(x) || wo) && u.rec == nil {
			u.localCells = append(u.localCells, localCell{addr: fr.regs[x], typ: derefType(x.Type()), writeOnce: wo})
		}
		switch x.Comment {
		case "", "varargs", "slicelit", "complit", "makeslice", "new", "arraylit", "maplit":
		default:
			// an addressable local variable (captured or address-taken): contracts refer to it by name
			st.env[x.Comment] = envEntry{val: fr.regs[x], typ: derefType(x.Type()), isAddr: true}
		}
		return st
	case *ssa.UnOp:
		return fr.execUnOp(x, st)
	case *ssa.BinOp:
		fr.setReg(x, fr.binop(x, st))
		return st
	case *ssa.Store:
		et := derefType(x.Addr.Type())
		fr.checkAddr(x.Addr, st, x.Pos())
		if isComposite(et) {
			fr.storeValue(st, et, fr.val(x.Addr), nil, fr.val(x.Val), x.Addr)
		} else {
			if ia, ok := x.Addr.(*ssa.IndexAddr); ok && isByteSliceOrArrayPtr(ia.X.Type()) {
				u.note("store into a []byte element in %s: []byte is modelled as an immutable value (function outside the subset)", fr.key)
				u.outsideSubset = append(u.outsideSubset, "store into []byte element")
				return st
			}
			c := fr.leafCell(x.Addr)
			fr.checkGuardedStore(x, c, st)
			if u.w.sh.nonNilField[c.key] {
				if v := fr.val(x.Val); v.Sort == SLoc {
					u.oblige(fr, "typeinv", x.Pos(), "value stored in "+c.key+" is non-nil", st.pc, Neq(v, NilLoc), false)
				} else if v.Sort == SIface {
					u.oblige(fr, "typeinv", x.Pos(), "value stored in "+c.key+" is non-nil", st.pc, Neq(ITag(v), IntLit(0)), false)
				}
			}
			fr.storeValue(st, et, c.idx, &c, fr.val(x.Val), x.Addr)
		}
		return st
	case *ssa.FieldAddr:
		base := fr.val(x.X)
		u.oblige(fr, "nil-deref", x.Pos(), fr.srcText(x.Pos(), x.X.Name()+"."+fieldName(x)), st.pc, Neq(base, NilLoc), false)
		s := derefType(x.X.Type()).Underlying().(*types.Struct)
		fr.setReg(x, LocAdd(base, IntLit(int64(w.fieldOffset(s, x.Field)))))
		return st
	case *ssa.Field:
		fr.setReg(x, w.structField(x.X.Type(), fr.val(x.X), x.Field))
		return st
	case *ssa.IndexAddr:
		return fr.execIndexAddr(x, st)
	case *ssa.Index:
		xv := fr.val(x.X)
		iv := fr.val(x.Index)
		switch xt := x.X.Type().Underlying().(type) {
		case *types.Array:
			u.oblige(fr, "index", x.Pos(), fr.srcText(x.Pos(), "index"), st.pc, And(Le(IntLit(0), iv), Lt(iv, IntLit(xt.Len()))), false)
			fr.setReg(x, Select(xv, iv, w.sortOf(xt.Elem())))
		case *types.Basic: // string
			u.oblige(fr, "index", x.Pos(), fr.srcText(x.Pos(), "index"), st.pc, And(Le(IntLit(0), iv), Lt(iv, StrLen(xv))), false)
			r := StrAt(xv, iv)
			u.assume(True, And(Le(IntLit(0), r), Le(r, IntLit(255))))
			fr.setReg(x, r)
		default:
			fr.setReg(x, u.fresh("idx", w.sortOf(x.Type())))
		}
		return st
	case *ssa.Slice:
		return fr.execSlice(x, st)
	case *ssa.MakeSlice:
		return fr.execMakeSlice(x, st)
	case *ssa.MakeMap:
		o := fr.newObject(st)
		a := MkLoc(o, IntLit(0))
		mt := x.Type().Underlying().(*types.Map)
		fr.mapInit(st, mt, a)
		fr.setReg(x, a)
		return st
	case *ssa.MakeChan:
		o := fr.newObject(st)
		fr.setReg(x, MkLoc(o, IntLit(0)))
		return st
	case *ssa.MakeInterface:
		fr.setReg(x, fr.makeInterface(st, x.X.Type(), fr.val(x.X)))
		return st
	case *ssa.ChangeInterface:
		fr.setReg(x, fr.val(x.X))
		return st
	case *ssa.ChangeType:
		fr.setReg(x, fr.val(x.X))
		return st
	case *ssa.Convert:
		fr.setReg(x, fr.convert(x, st))
		return st
	case *ssa.TypeAssert:
		return fr.execTypeAssert(x, st)
	case *ssa.Extract:
		if ts, ok := fr.tuples[x.Tuple]; ok && x.Index < len(ts) {
			fr.regs[x] = ts[x.Index]
		} else {
			fr.regs[x] = u.fresh(fr.vname(x), w.sortOf(x.Type()))
			fr.assumeTypeInv(st, fr.regs[x], x.Type())
		}
		return st
	case *ssa.Lookup:
		return fr.execLookup(x, st)
	case *ssa.MapUpdate:
		return fr.execMapUpdate(x, st)
	case *ssa.Range:
		return fr.execRange(x, st)
	case *ssa.Next:
		return fr.execNext(x, st)
	case *ssa.MakeClosure:
		return fr.execMakeClosure(x, st)
	case *ssa.Call:
		return fr.execCall(x, st)
	case *ssa.Defer:
		d := deferred{call: &x.Call, site: x}
		for _, a := range x.Call.Args {
			d.args = append(d.args, fr.val(a))
		}
		d.fnv = fr.val(x.Call.Value)
		top := len(st.defers) - 1
		st.defers[top] = append(st.defers[top], d)
		return st
	case *ssa.RunDefers:
		return fr.runDefers(st)
	case *ssa.Go:
		u.note("go statement in %s: the spawned function is not part of this activation (verified separately if in scope)", fr.key)
		return st
	case *ssa.Send:
		if op := fr.chanOpFor(x.Chan, true); op != nil {
			return fr.applyChanOps(st, []*chanOp{op}, []Term{True}, False)
		}
		u.note("channel send in %s is not modelled", fr.key)
		u.outsideSubset = append(u.outsideSubset, "channel send")
		return st
	case *ssa.Select:
		// non-blocking / blocking select: results are nondeterministic
		var ts []Term
		tup := x.Type().(*types.Tuple)
		for i := 0; i < tup.Len(); i++ {
			t := u.fresh(fr.vname(x), w.sortOf(tup.At(i).Type()))
			ts = append(ts, t)
		}
		if len(ts) > 0 {
			n := int64(len(x.States))
			lo := int64(0)
			if !x.Blocking {
				lo = -1
			}
			u.assume(True, And(Le(IntLit(lo), ts[0]), Lt(ts[0], IntLit(n))))
		}
		fr.tuples[x] = ts
		u.note("select in %s is modelled as a nondeterministic choice", fr.key)
		if len(ts) > 0 {
			var ops []*chanOp
			var chosen []Term
			for i, s := range x.States {
				ops = append(ops, fr.chanOpFor(s.Chan, s.Dir == types.SendOnly))
				chosen = append(chosen, Eq(ts[0], IntLit(int64(i))))
			}
			none := False
			if !x.Blocking {
				none = Eq(ts[0], IntLit(-1))
			}
			return fr.applyChanOps(st, ops, chosen, none)
		}
		return st
	}
	u.note("unsupported instruction %T in %s", in, fr.key)
	if v, ok := in.(ssa.Value); ok {
		fr.regs[v] = u.fresh(fr.vname(v), w.sortOf(v.Type()))
	}
	return st
}

func fieldName(x *ssa.FieldAddr) string {
	s := derefType(x.X.Type()).Underlying().(*types.Struct)
	return s.Field(x.Field).Name()
}

func isByteSliceOrArrayPtr(t types.Type) bool {
	if isByteSlice(t) {
		return true
	}
	if p, ok := t.Underlying().(*types.Pointer); ok {
		if a, ok := p.Elem().Underlying().(*types.Array); ok {
			return isByte(a.Elem())
		}
	}
	return false
}

// checkAddr emits a nil-deref obligation for loads/stores through raw pointer values.
func (fr *Frame) checkAddr(addr ssa.Value, st *State, pos token.Pos) {
	switch addr.(type) {
	case *ssa.FieldAddr, *ssa.IndexAddr, *ssa.Alloc, *ssa.Global:
		return
	}
	if fv, ok := addr.(*ssa.FreeVar); ok {
		_ = fv
		return // captured variable cells are never nil
	}
	fr.u.oblige(fr, "nil-deref", pos, fr.srcText(pos, "*"+addr.Name()), st.pc, Neq(fr.val(addr), NilLoc), false)
}

func (fr *Frame) execUnOp(x *ssa.UnOp, st *State) *State {
	u := fr.u
	w := u.w
	switch x.Op {
	case token.MUL: // load
		et := x.Type()
		if g, ok := x.X.(*ssa.Global); ok && g.Pkg != nil && !w.inRepo(g.Pkg.Pkg.Path()) && w.sortOf(et) == SIface {
			// sentinel error variables of dependencies (os.ErrNotExist, io.EOF, leveldb.ErrNotFound ...): fixed, distinct,
			// non-nil values (assumption: nobody reassigns them)
			name := "sentinel:" + g.Pkg.Pkg.Path() + "." + g.Name()
			tag, ok := w.tagOf[name]
			if !ok {
				tag = len(w.tagType)
				w.tagOf[name] = tag
				w.tagType = append(w.tagType, nil)
			}
			fr.regs[x] = MkIface(IntLit(int64(tag)), w.globalLoc(g))
			u.libAssumed["sentinel "+g.Pkg.Pkg.Path()+"."+g.Name()+" is a fixed non-nil value"]++
			return st
		}
		fr.checkAddr(x.X, st, x.Pos())
		if ia, ok := x.X.(*ssa.IndexAddr); ok && isByteSlice(ia.X.Type()) {
			// byte of an immutable []byte value
			b := fr.val(ia.X)
			r := StrAt(BStr(b), fr.val(ia.Index))
			u.assume(True, And(Le(IntLit(0), r), Le(r, IntLit(255))))
			fr.setReg(x, r)
			return st
		}
		var v Term
		if isComposite(et) {
			v = fr.loadValue(st, et, fr.val(x.X), nil)
		} else {
			c := fr.leafCell(x.X)
			v = fr.loadLeaf(st, c)
			fr.setReg(x, v)
			fr.checkGuardedLoad(x, c, st)
			fr.assumeTypeInv(st, fr.regs[x], et)
			fr.assumeFieldInv(st, x, c)
			return st
		}
		fr.setReg(x, v)
		return st
	case token.NOT:
		fr.setReg(x, Not(fr.val(x.X)))
	case token.SUB:
		v := fr.val(x.X)
		if v.Sort == SReal {
			fr.setReg(x, mk(SReal, "-", v))
		} else {
			fr.setReg(x, fr.wrapInt(mk(SInt, "-", v), x.Type()))
		}
	case token.XOR:
		fr.setReg(x, u.fresh(fr.vname(x), SInt))
		fr.assumeTypeInv(st, fr.regs[x], x.Type())
	case token.ARROW:
		// channel receive
		if op := fr.chanOpFor(x.X, false); op != nil {
			st = fr.applyChanOps(st, []*chanOp{op}, []Term{True}, False)
		}
		if x.CommaOk {
			fr.tuples[x] = []Term{u.fresh(fr.vname(x), w.sortOf(x.Type().(*types.Tuple).At(0).Type())), u.fresh(fr.vname(x), SBool)}
		} else {
			fr.setReg(x, u.fresh(fr.vname(x), w.sortOf(x.Type())))
		}
		u.note("channel receive in %s is not modelled (nondeterministic value)", fr.key)
		u.outsideSubset = append(u.outsideSubset, "channel receive")
	default:
		fr.setReg(x, u.fresh(fr.vname(x), w.sortOf(x.Type())))
	}
	return st
}

// wrapInt applies machine-integer wrap-around when the unit is in "arith wrap" mode; otherwise integers are mathematical.
func (fr *Frame) wrapInt(t Term, typ types.Type) Term {
	return t
}

func (fr *Frame) binop(x *ssa.BinOp, st *State) Term {
	u := fr.u
	a, b := fr.val(x.X), fr.val(x.Y)
	xt := x.X.Type()
	switch x.Op {
	case token.EQL, token.NEQ:
		var eq Term
		switch {
		case a.Sort == SBytes || b.Sort == SBytes:
			// only comparison against nil is legal for slices
			if isNilConst(x.Y) {
				eq = BIsNil(a)
			} else if isNilConst(x.X) {
				eq = BIsNil(b)
			} else {
				eq = Eq(a, b)
			}
		case a.Sort == SSlice:
			if isNilConst(x.Y) {
				eq = Eq(SPtr(a), NilLoc)
			} else if isNilConst(x.X) {
				eq = Eq(SPtr(b), NilLoc)
			} else {
				eq = Eq(a, b)
			}
		case a.Sort == SIface:
			eq = fr.ifaceEq(st, a, b, x)
		case a.Sort == SReal:
			eq = Eq(a, b)
		default:
			eq = Eq(a, b)
		}
		if x.Op == token.NEQ {
			return Not(eq)
		}
		return eq
	case token.LSS, token.LEQ, token.GTR, token.GEQ:
		if a.Sort == SStr {
			switch x.Op {
			case token.LSS:
				return StrLt(a, b)
			case token.LEQ:
				return Not(StrLt(b, a))
			case token.GTR:
				return StrLt(b, a)
			default:
				return Not(StrLt(a, b))
			}
		}
		op := map[token.Token]string{token.LSS: "<", token.LEQ: "<=", token.GTR: ">", token.GEQ: ">="}[x.Op]
		return mk(SBool, op, a, b)
	case token.ADD:
		if a.Sort == SStr {
			return StrCat(a, b)
		}
		if a.Sort == SReal {
			return mk(SReal, "+", a, b)
		}
		return fr.arith(x, st, mk(SInt, "+", a, b))
	case token.SUB:
		if a.Sort == SReal {
			return mk(SReal, "-", a, b)
		}
		return fr.arith(x, st, mk(SInt, "-", a, b))
	case token.MUL:
		if a.Sort == SReal {
			return mk(SReal, "*", a, b)
		}
		return fr.arith(x, st, mk(SInt, "*", a, b))
	case token.QUO:
		if a.Sort == SReal {
			return mk(SReal, "/", a, b)
		}
		u.oblige(fr, "div-zero", x.Pos(), fr.srcText(x.Pos(), "/"), st.pc, Neq(b, IntLit(0)), false)
		// Go: truncated division
		return fr.arith(x, st, truncDiv(a, b))
	case token.REM:
		u.oblige(fr, "div-zero", x.Pos(), fr.srcText(x.Pos(), "%"), st.pc, Neq(b, IntLit(0)), false)
		return truncRem(a, b)
	case token.AND, token.OR, token.XOR, token.SHL, token.SHR, token.AND_NOT:
		if a.Sort == SBool {
			switch x.Op {
			case token.AND:
				return And(a, b)
			case token.OR:
				return Or(a, b)
			}
		}
		// bit operations: a few exact cases, otherwise a fresh in-range value
		if c, ok := x.Y.(*ssa.Const); ok && c.Value != nil && c.Value.Kind() == constant.Int {
			n, exact := constant.Int64Val(c.Value)
			if exact {
				_, hi, isInt := intRange(xt)
				nonneg := isInt && hi != "" && isUnsigned(xt)
				switch x.Op {
				case token.SHR:
					if nonneg && n >= 0 && n < 63 {
						return mk(SInt, "div", a, IntLit(1<<uint(n)))
					}
				case token.AND:
					if nonneg && n > 0 && (n&(n+1)) == 0 { // mask 2^k-1
						return mk(SInt, "mod", a, IntLit(n+1))
					}
				case token.SHL:
					if n >= 0 && n < 62 {
						return fr.arith(x, st, mk(SInt, "*", a, IntLit(1<<uint(n))))
					}
				}
			}
		}
		r := u.fresh(fr.vname(x), SInt)
		fr.assumeTypeInv(st, r, x.Type())
		u.note("bit operation %s in %s is not modelled precisely (fresh in-range value)", x.Op, fr.key)
		return r
	}
	return u.fresh(fr.vname(x), u.w.sortOf(x.Type()))
}

func isUnsigned(t types.Type) bool {
	b, ok := t.Underlying().(*types.Basic)
	return ok && b.Info()&types.IsUnsigned != 0
}

func isNilConst(v ssa.Value) bool {
	c, ok := v.(*ssa.Const)
	return ok && c.Value == nil
}

func truncDiv(a, b Term) Term {
	// Go: (a / b) truncates toward zero. SMT div is floor for positive divisor, ceil for negative (Euclidean).
	// trunc(a/b) = ite(a >= 0, a div b, -((-a) div b))
	return Ite(Ge(a, IntLit(0)), mk(SInt, "div", a, b), mk(SInt, "-", mk(SInt, "div", mk(SInt, "-", a), b)))
}

func truncRem(a, b Term) Term {
	// a % b = a - b*trunc(a/b)
	return Sub(a, Mul(b, truncDiv(a, b)))
}

// arith handles overflow according to the arithmetic mode of the unit.
func (fr *Frame) arith(x *ssa.BinOp, st *State, t Term) Term {
	u := fr.u
	lo, hi, ok := intRange(x.Type())
	if !ok {
		return t
	}
	switch u.arithMode {
	case "wrap":
		bits, signed := intWidth(x.Type())
		return wrapTerm(t, bits, signed)
	case "checked":
		u.oblige(fr, "overflow", x.Pos(), fr.srcText(x.Pos(), x.Op.String()), st.pc, And(Le(IntLitStr(lo), t), Le(t, IntLitStr(hi))), false)
		return t
	}
	u.mathArith = true
	return t
}

func wrapTerm(t Term, bits int, signed bool) Term {
	m := new(big.Int).Lsh(big.NewInt(1), uint(bits))
	ms := IntLitStr(m.String())
	if !signed {
		return mk(SInt, "mod", t, ms)
	}
	half := IntLitStr(new(big.Int).Rsh(m, 1).String())
	// ((t + half) mod m) - half
	return Sub(mk(SInt, "mod", Add(t, half), ms), half)
}

func (fr *Frame) convert(x *ssa.Convert, st *State) Term {
	u := fr.u
	w := u.w
	v := fr.val(x.X)
	from, to := x.X.Type(), x.Type()
	fs, ts := w.sortOf(from), w.sortOf(to)
	switch {
	case fs == SInt && ts == SInt:
		flo, fhi, _ := intRange(from)
		tlo, thi, ok := intRange(to)
		if !ok {
			return v
		}
		// fits?
		if bigLE(tlo, flo) && bigLE(fhi, thi) {
			return v
		}
		bits, signed := intWidth(to)
		return wrapTerm(v, bits, signed)
	case fs == SStr && ts == SBytes:
		return MkBytes(False, v)
	case fs == SBytes && ts == SStr:
		return BStr(v)
	case fs == SInt && ts == SReal:
		return mk(SReal, "to_real", v)
	case fs == SReal && ts == SInt:
		r := u.fresh(fr.vname(x), SInt)
		fr.assumeTypeInv(st, r, to)
		u.note("float to int conversion in %s not modelled precisely", fr.key)
		return r
	case fs == SInt && ts == SStr:
		return mk(SStr, "s.fromint", v)
	case fs == ts:
		return v
	}
	u.note("conversion %s -> %s in %s not modelled (fresh value)", from, to, fr.key)
	return u.fresh(fr.vname(x), ts)
}

func bigLE(a, b string) bool {
	x, _ := new(big.Int).SetString(a, 10)
	y, _ := new(big.Int).SetString(b, 10)
	return x.Cmp(y) <= 0
}

func (fr *Frame) execIndexAddr(x *ssa.IndexAddr, st *State) *State {
	u := fr.u
	w := u.w
	iv := fr.val(x.Index)
	xv := fr.val(x.X)
	switch xt := x.X.Type().Underlying().(type) {
	case *types.Slice:
		if isByte(xt.Elem()) {
			u.oblige(fr, "index", x.Pos(), fr.srcText(x.Pos(), "index"), st.pc, And(Le(IntLit(0), iv), Lt(iv, StrLen(BStr(xv)))), false)
			fr.regs[x] = NilLoc // not a real address: handled at the load
			return st
		}
		u.oblige(fr, "index", x.Pos(), fr.srcText(x.Pos(), "index"), st.pc, And(Le(IntLit(0), iv), Lt(iv, SLen(xv))), false)
		sz := w.sizeOf(xt.Elem())
		fr.setReg(x, ElemS(SPtr(xv), iv, int64(sz)))
	case *types.Pointer: // pointer to array
		at := xt.Elem().Underlying().(*types.Array)
		u.oblige(fr, "nil-deref", x.Pos(), fr.srcText(x.Pos(), "index"), st.pc, Neq(xv, NilLoc), false)
		u.oblige(fr, "index", x.Pos(), fr.srcText(x.Pos(), "index"), st.pc, And(Le(IntLit(0), iv), Lt(iv, IntLit(at.Len()))), false)
		sz := w.sizeOf(at.Elem())
		fr.setReg(x, ElemS(xv, iv, int64(sz)))
	default:
		fr.regs[x] = u.fresh(fr.vname(x), SLoc)
	}
	return st
}

func (fr *Frame) execSlice(x *ssa.Slice, st *State) *State {
	u := fr.u
	w := u.w
	xv := fr.val(x.X)
	var lo, hi, mx Term
	if x.Low != nil {
		lo = fr.val(x.Low)
	} else {
		lo = IntLit(0)
	}
	text := fr.srcText(x.Pos(), "slice")
	switch xt := x.X.Type().Underlying().(type) {
	case *types.Basic: // string
		if x.High != nil {
			hi = fr.val(x.High)
		} else {
			hi = StrLen(xv)
		}
		u.oblige(fr, "slice-bounds", x.Pos(), text, st.pc, And(Le(IntLit(0), lo), Le(lo, hi), Le(hi, StrLen(xv))), false)
		r := u.define(fr.vname(x), StrSub(xv, lo, hi))
		fr.regs[x] = r
		u.assume(st.pc, Eq(StrLen(r), Sub(hi, lo)))
		u.features["strsub"] = true
	case *types.Slice:
		if isByte(xt.Elem()) {
			// value semantics; capacity is not tracked for []byte
			if x.High != nil {
				hi = fr.val(x.High)
			} else {
				hi = StrLen(BStr(xv))
			}
			goal := And(Le(IntLit(0), lo), Le(lo, hi))
			if x.High == nil || true {
				// without capacity information we require hi <= len (stricter than Go when cap > len)
				goal = And(goal, Le(hi, StrLen(BStr(xv))))
			}
			u.oblige(fr, "slice-bounds", x.Pos(), text, st.pc, goal, false)
			s := u.define(fr.vname(x), StrSub(BStr(xv), lo, hi))
			u.assume(st.pc, Eq(StrLen(s), Sub(hi, lo)))
			u.features["strsub"] = true
			fr.regs[x] = MkBytes(And(BIsNil(xv), Eq(hi, IntLit(0))), s)
			return st
		}
		if x.High != nil {
			hi = fr.val(x.High)
		} else {
			hi = SLen(xv)
		}
		if x.Max != nil {
			mx = fr.val(x.Max)
		} else {
			mx = SCap(xv)
		}
		u.oblige(fr, "slice-bounds", x.Pos(), text, st.pc, And(Le(IntLit(0), lo), Le(lo, hi), Le(hi, mx), Le(mx, SCap(xv))), false)
		sz := w.sizeOf(xt.Elem())
		// Go: if the result has capacity 0 the pointer may be anything; keep base
		fr.setReg(x, MkSlice(ElemS(SPtr(xv), lo, int64(sz)), Sub(hi, lo), Sub(mx, lo)))
	case *types.Pointer: // *[N]T
		at := xt.Elem().Underlying().(*types.Array)
		n := IntLit(at.Len())
		if x.High != nil {
			hi = fr.val(x.High)
		} else {
			hi = n
		}
		if x.Max != nil {
			mx = fr.val(x.Max)
		} else {
			mx = n
		}
		u.oblige(fr, "nil-deref", x.Pos(), text, st.pc, Neq(xv, NilLoc), false)
		u.oblige(fr, "slice-bounds", x.Pos(), text, st.pc, And(Le(IntLit(0), lo), Le(lo, hi), Le(hi, mx), Le(mx, n)), false)
		if isByte(at.Elem()) {
			// bytes view of an array: contents from the array cells
			s := fr.arrayBytes(st, xv, at, lo, hi)
			fr.regs[x] = MkBytes(False, s)
			return st
		}
		sz := w.sizeOf(at.Elem())
		fr.setReg(x, MkSlice(ElemS(xv, lo, int64(sz)), Sub(hi, lo), Sub(mx, lo)))
	default:
		fr.regs[x] = u.fresh(fr.vname(x), w.sortOf(x.Type()))
	}
	return st
}

// arrayBytes builds the Str holding bytes [lo,hi) of the byte array at address a.
func (fr *Frame) arrayBytes(st *State, a Term, at *types.Array, lo, hi Term) Term {
	u := fr.u
	if at.Len() == 1 && lo.S == "0" && hi.S == "1" {
		// canonical single-byte string, so that append(k, b) and k + "<b>" are the same term
		c := u.w.typeCell(at.Elem(), a)
		return mk(SStr, "s.byte", fr.loadLeaf(st, c))
	}
	s := u.fresh("arrbytes", SStr)
	u.assume(True, Eq(StrLen(s), Sub(hi, lo)))
	n := int(at.Len())
	if n <= 32 {
		for i := 0; i < n; i++ {
			c := u.w.typeCell(at.Elem(), LocAdd(a, IntLit(int64(i))))
			k := IntLit(int64(i))
			u.assume(True, Implies(And(Le(lo, k), Lt(k, hi)), Eq(StrAt(s, Sub(k, lo)), fr.loadLeaf(st, c))))
		}
	}
	return s
}

func (fr *Frame) execMakeSlice(x *ssa.MakeSlice, st *State) *State {
	u := fr.u
	ln, cp := fr.val(x.Len), fr.val(x.Cap)
	u.oblige(fr, "neg-make", x.Pos(), fr.srcText(x.Pos(), "make"), st.pc, And(Le(IntLit(0), ln), Le(ln, cp)), false)
	et := x.Type().Underlying().(*types.Slice).Elem()
	if isByte(et) {
		s := u.fresh("zeros", SStr)
		u.assume(True, Eq(StrLen(s), ln))
		i := Sym("i!", SInt)
		u.assume(True, Forall([]Term{i}, Implies(And(Le(IntLit(0), i), Lt(i, ln)), Eq(StrAt(s, i), IntLit(0))), []Term{StrAt(s, i)}))
		fr.regs[x] = MkBytes(False, s)
		return st
	}
	o := fr.newObject(st)
	fr.freshObjectZero(st, et, o)
	fr.setReg(x, MkSlice(MkLoc(o, IntLit(0)), ln, cp))
	return st
}

// freshObjectZero: every cell (of the heaps an element of type et uses) of the new object o is zero.
func (fr *Frame) freshObjectZero(st *State, et types.Type, o Term) {
	u := fr.u
	w := u.w
	var keys []cell
	var collect func(t types.Type)
	collect = func(t types.Type) {
		switch ut := t.Underlying().(type) {
		case *types.Struct:
			for i := 0; i < ut.NumFields(); i++ {
				ft := ut.Field(i).Type()
				if isComposite(ft) {
					collect(ft)
				} else {
					c := fr.fieldCell(t, NilLoc, i)
					keys = append(keys, c)
				}
			}
		case *types.Array:
			collect(ut.Elem())
		default:
			keys = append(keys, w.typeCell(t, NilLoc))
		}
	}
	collect(et)
	seen := map[string]bool{}
	for _, c := range keys {
		if seen[c.key] {
			continue
		}
		seen[c.key] = true
		vs := w.sortOf(c.typ)
		old := u.heap(st, c.key, vs)
		h := u.fresh("Hn!"+c.key, ArraySort(SLoc, vs))
		l := Sym("l!", SLoc)
		u.assume(True, Forall([]Term{l}, Ite(Eq(Obj(l), o), Eq(Select(h, l, vs), w.zero(c.typ)), Eq(Select(h, l, vs), Select(old, l, vs))), []Term{Select(h, l, vs)}))
		st.heaps[c.key] = h
	}
}

func (fr *Frame) makeInterface(st *State, t types.Type, v Term) Term {
	u := fr.u
	w := u.w
	tag := IntLit(int64(w.tag(t)))
	if _, isIface := t.Underlying().(*types.Interface); isIface {
		return v
	}
	if w.sortOf(t) == SLoc {
		return MkIface(tag, v)
	}
	// box the value in a fresh immutable cell
	o := fr.newObject(st)
	a := MkLoc(o, IntLit(0))
	if isComposite(t) {
		fr.storeValue(st, t, a, nil, v, nil)
	} else {
		c := w.typeCell(t, a)
		fr.storeLeaf(st, c, v)
	}
	return MkIface(tag, a)
}

// ifaceEq compares two interface values; boxed values of comparable basic types compare by content.
func (fr *Frame) ifaceEq(st *State, a, b Term, x *ssa.BinOp) Term {
	if isNilConst(x.Y) {
		return Eq(ITag(a), IntLit(0))
	}
	if isNilConst(x.X) {
		return Eq(ITag(b), IntLit(0))
	}
	// pointer-shaped dynamic values: identity. Boxed values: not modelled (identity of the box is an under-approximation of equality)
	return Eq(a, b)
}

func (fr *Frame) execTypeAssert(x *ssa.TypeAssert, st *State) *State {
	u := fr.u
	w := u.w
	v := fr.val(x.X)
	var ok Term
	var res Term
	if _, isIface := x.AssertedType.Underlying().(*types.Interface); isIface {
		// assertion to an interface type: succeeds iff the dynamic type implements it
		ok = fr.implementsTerm(v, x.AssertedType)
		res = v
	} else {
		tag := IntLit(int64(w.tag(x.AssertedType)))
		ok = Eq(ITag(v), tag)
		if w.sortOf(x.AssertedType) == SLoc {
			res = IVal(v)
		} else if isComposite(x.AssertedType) {
			res = fr.loadValue(st, x.AssertedType, IVal(v), nil)
		} else {
			res = fr.loadLeaf(st, w.typeCell(x.AssertedType, IVal(v)))
		}
	}
	if w.sortOf(x.AssertedType) == SLoc {
		if n, isNamed := derefType(x.AssertedType).(*types.Named); isNamed && n.Obj().Pkg() != nil && !w.inRepo(n.Obj().Pkg().Path()) {
			// modelling assumption: interface values of dependency types (protobuf oneof wrappers) never hold typed nil pointers
			u.assume(True, Implies(ok, Neq(IVal(v), NilLoc)))
		}
	}
	if x.CommaOk {
		zero := w.zero(x.AssertedType)
		if _, isIface := x.AssertedType.Underlying().(*types.Interface); isIface {
			zero = NilIface
		}
		r := u.define(fr.vname(x), Ite(ok, res, zero))
		fr.tuples[x] = []Term{r, u.define(fr.vname(x)+".ok", ok)}
		if r.Sort == SLoc {
			// a successful assertion to a pointer type yields the stored pointer, which is allocated
			u.assume(True, Le(Obj(r), st.alloc))
		}
		return st
	}
	u.oblige(fr, "type-assert", x.Pos(), fr.srcText(x.Pos(), "type assertion"), st.pc, ok, false)
	fr.setReg(x, res)
	return st
}

func (fr *Frame) implementsTerm(v Term, iface types.Type) Term {
	u := fr.u
	name := quoteSym("implements:" + shortTypeKey(iface))
	if !u.declared[name] {
		u.declared[name] = true
		u.cmds = append(u.cmds, fmt.Sprintf("(declare-fun %s (Int) Bool)", name))
		u.assume(True, Not(mk(SBool, name, IntLit(0))))
	}
	return mk(SBool, name, ITag(v))
}
