package main

import (
	"fmt"
	"go/types"

	"golang.org/x/tools/go/ssa"
	"strings"
)

// call evaluates built-in spec functions and user-defined spec functions.
func (c *evalCtx) call(e *Expr) (tval, error) {
	fr := c.fr
	u := fr.u
	w := u.w
	args := func() ([]tval, error) {
		var out []tval
		for _, a := range e.Args {
			v, err := c.eval(a)
			if err != nil {
				return nil, err
			}
			out = append(out, v)
		}
		return out, nil
	}
	need := func(n int) error {
		if len(e.Args) != n {
			return fmt.Errorf("%s expects %d arguments", e.Name, n)
		}
		return nil
	}
	switch e.Name {
	case "len", "cap":
		if err := need(1); err != nil {
			return tval{}, err
		}
		x, err := c.eval(e.Args[0])
		if err != nil {
			return tval{}, err
		}
		switch x.t.Sort {
		case SSlice:
			if e.Name == "cap" {
				return tval{t: SCap(x.t), ty: tInt}, nil
			}
			return tval{t: SLen(x.t), ty: tInt}, nil
		case SBytes:
			return tval{t: StrLen(BStr(x.t)), ty: tInt}, nil
		case SStr:
			return tval{t: StrLen(x.t), ty: tInt}, nil
		case SLoc:
			if mt, ok := x.ty.Underlying().(*types.Map); ok {
				return tval{t: fr.mapLen(c.state(), mt, x.t), ty: tInt}, nil
			}
		}
		return tval{}, fmt.Errorf("len of %s", x.ty)
	case "fresh":
		x, err := c.eval(e.Args[0])
		if err != nil {
			return tval{}, err
		}
		if c.old == nil {
			return tval{}, fmt.Errorf("fresh() needs an old state")
		}
		var o Term
		switch x.t.Sort {
		case SLoc:
			o = Obj(x.t)
		case SSlice:
			o = Obj(SPtr(x.t))
		case SIface:
			o = Obj(IVal(x.t))
		default:
			return tval{}, fmt.Errorf("fresh() of non-reference")
		}
		return tval{t: Gt(o, c.old.alloc), ty: tBool}, nil
	case "allocated":
		x, err := c.eval(e.Args[0])
		if err != nil {
			return tval{}, err
		}
		return tval{t: And(Gt(Obj(x.t), IntLit(0)), Le(Obj(x.t), c.state().alloc)), ty: tBool}, nil
	case "typeis":
		x, err := c.eval(e.Args[0])
		if err != nil {
			return tval{}, err
		}
		ty, err := c.resolveType(e.Args[1].Name)
		if err != nil {
			return tval{}, err
		}
		if x.t.Sort != SIface {
			// a value of concrete static type (an implementation verified against its interface's contract, where the
			// receiver is written typeis(recv, *T)): decided statically
			if x.ty != nil {
				if types.Identical(x.ty, ty) {
					return tval{t: True, ty: tBool}, nil
				}
				return tval{t: False, ty: tBool}, nil
			}
			return tval{}, fmt.Errorf("typeis on non-interface")
		}
		return tval{t: Eq(ITag(x.t), IntLit(int64(w.tag(ty)))), ty: tBool}, nil
	case "as":
		x, err := c.eval(e.Args[0])
		if err != nil {
			return tval{}, err
		}
		ty, err := c.resolveType(e.Args[1].Name)
		if err != nil {
			return tval{}, err
		}
		if w.sortOf(ty) == SLoc {
			return tval{t: IVal(x.t), ty: ty}, nil
		}
		return tval{t: IVal(x.t), ty: ty, addr: true}, nil
	case "deref": // deref(p): the value stored at pointer p
		x, err := c.eval(e.Args[0])
		if err != nil {
			return tval{}, err
		}
		p, ok := x.ty.Underlying().(*types.Pointer)
		if !ok {
			return tval{}, fmt.Errorf("deref of non-pointer %s", x.ty)
		}
		return c.rvalue(tval{t: x.t, ty: p.Elem(), addr: true}), nil
	case "zero":
		ty, err := c.resolveType(e.Args[0].Name)
		if err != nil {
			return tval{}, err
		}
		return tval{t: w.zero(ty), ty: ty}, nil
	case "bytesLess", "strLess":
		as, err := args()
		if err != nil {
			return tval{}, err
		}
		u.features["strlt"] = true
		return tval{t: StrLt(asStr(as[0].t), asStr(as[1].t)), ty: tBool}, nil
	case "bytesEq":
		as, err := args()
		if err != nil {
			return tval{}, err
		}
		return tval{t: Eq(asStr(as[0].t), asStr(as[1].t)), ty: tBool}, nil
	case "hasPrefix": // hasPrefix(s, p)
		as, err := args()
		if err != nil {
			return tval{}, err
		}
		u.features["strprefix"] = true
		return tval{t: StrPrefix(asStr(as[1].t), asStr(as[0].t)), ty: tBool}, nil
	case "str":
		as, err := args()
		if err != nil {
			return tval{}, err
		}
		return tval{t: asStr(as[0].t), ty: tStr}, nil
	case "isnil":
		as, err := args()
		if err != nil {
			return tval{}, err
		}
		x := as[0]
		switch x.t.Sort {
		case SBytes:
			return tval{t: BIsNil(x.t), ty: tBool}, nil
		case SSlice:
			return tval{t: Eq(SPtr(x.t), NilLoc), ty: tBool}, nil
		case SIface:
			return tval{t: Eq(ITag(x.t), IntLit(0)), ty: tBool}, nil
		}
		return tval{t: Eq(x.t, NilLoc), ty: tBool}, nil
	case "min", "max":
		as, err := args()
		if err != nil {
			return tval{}, err
		}
		if e.Name == "min" {
			return tval{t: Ite(Le(as[0].t, as[1].t), as[0].t, as[1].t), ty: as[0].ty}, nil
		}
		return tval{t: Ite(Ge(as[0].t, as[1].t), as[0].t, as[1].t), ty: as[0].ty}, nil
	case "held": // held(mutexAddr) -> 0 none, 1 read, 2 write
		x, err := c.eval1(e.Args[0])
		if err != nil {
			return tval{}, err
		}
		if !x.addr && x.t.Sort != SLoc {
			return tval{}, fmt.Errorf("held() needs a mutex")
		}
		return tval{t: Select(c.state().held, x.t, SInt), ty: tInt}, nil
	case "nolocks":
		l := Sym("l!h", SLoc)
		u.usesQuant = true
		return tval{t: Forall([]Term{l}, Eq(Select(c.state().held, l, SInt), IntLit(0))), ty: tBool}, nil
	case "alloc":
		return tval{t: c.state().alloc, ty: tInt}, nil
	case "cbStart":
		// cbStart() (inside a callback closure): the allocation watermark when this invocation of the callback began,
		// before the callee allocated the objects it hands over; everything the caller collected in earlier
		// invocations is older, everything a "callback P assume fresh(..)" clause speaks about is younger
		for f := c.fr; f != nil; f = f.parent {
			if f.cbStart != nil {
				return tval{t: *f.cbStart, ty: tInt}, nil
			}
		}
		return tval{}, fmt.Errorf("cbStart() outside of a callback invocation")
	case "csStart":
		// csStart(): the allocation watermark at the moment the current critical section (epoch) began; defined at
		// every lock acquisition (lockAcquired), never above the current watermark
		e, ok := c.state().ghost["epoch"]
		if !ok {
			return tval{}, fmt.Errorf("csStart() needs the epoch ghost")
		}
		u.declareFun("epochStart", []string{"Int"}, SInt)
		t := mk(SInt, "epochStart", e)
		u.assume(True, Le(t, c.state().alloc))
		return tval{t: t, ty: tInt}, nil
	case "obj":
		as, err := args()
		if err != nil {
			return tval{}, err
		}
		x := as[0].t
		switch x.Sort {
		case SSlice:
			x = SPtr(x)
		case SIface:
			x = IVal(x)
		}
		return tval{t: Obj(x), ty: tInt}, nil
	case "addr": // addr(x.f) : the address of a composite field or variable
		x, err := c.eval1(e.Args[0])
		if err != nil {
			return tval{}, err
		}
		if !x.addr {
			return tval{}, fmt.Errorf("addr() of a non-addressable expression")
		}
		return tval{t: x.t, ty: types.NewPointer(x.ty)}, nil
	case "wrap64":
		as, err := args()
		if err != nil {
			return tval{}, err
		}
		return tval{t: wrapTerm(as[0].t, 64, true), ty: types.Typ[types.Int64]}, nil
	case "wrapu64":
		as, err := args()
		if err != nil {
			return tval{}, err
		}
		return tval{t: wrapTerm(as[0].t, 64, false), ty: types.Typ[types.Uint64]}, nil
	case "unchanged": // unchanged(e): old(e) == e
		cur, err := c.eval(e.Args[0])
		if err != nil {
			return tval{}, err
		}
		saved := c.inOld
		c.inOld = true
		old, err := c.eval(e.Args[0])
		c.inOld = saved
		if err != nil {
			return tval{}, err
		}
		return tval{t: Eq(cur.t, old.t), ty: tBool}, nil
	case "frameExcept": // frameExcept(d1, d2, ...): in the heaps the designators lie in, every cell of an object that existed at function entry is unchanged EXCEPT the designated ones (designators are evaluated at function entry)
		if c.old == nil {
			return tval{}, fmt.Errorf("frameExcept needs an old state")
		}
		byKey := map[string][]footprint{}
		var order []string
		// at function entry a parameter name denotes the argument (even if the parameter is an addressable variable)
		entryNames := map[string]tval{}
		for k, v := range c.names {
			entryNames[k] = v
		}
		for _, p := range fr.fn.Params {
			if t, ok := fr.regs[p]; ok && !c.bound[p.Name()] {
				entryNames[p.Name()] = tval{t: t, ty: p.Type()}
			}
		}
		for _, a := range e.Args {
			fps, everything, err := fr.evalModifies([]string{a.String()}, entryNames, c.old)
			if err != nil {
				return tval{}, err
			}
			if everything {
				return tval{}, fmt.Errorf("frameExcept(*) is meaningless")
			}
			for _, fp := range fps {
				if _, ok := byKey[fp.key]; !ok {
					order = append(order, fp.key)
				}
				byKey[fp.key] = append(byKey[fp.key], fp)
			}
		}
		var conj []Term
		for _, k := range order {
			*c.nq++
			vs := byKey[k][0].vs
			l := Sym(fmt.Sprintf("l!x%d_%d", u.nsym, *c.nq), SLoc)
			cur := Select(u.heap(c.cur, k, vs), l, vs)
			old := Select(u.heap(c.old, k, vs), l, vs)
			conds := []Term{Le(Obj(l), c.old.alloc)}
			for _, fp := range byKey[k] {
				conds = append(conds, Not(fp.cond(l)))
			}
			conj = append(conj, Forall([]Term{l}, Implies(And(conds...), Eq(cur, old)), []Term{cur}))
		}
		u.usesQuant = true
		return tval{t: And(conj...), ty: tBool}, nil
	case "frameOld": // frameOld(d1, d2, ...): in the heaps named by the designators, cells of objects that existed at function entry are unchanged
		if c.old == nil {
			return tval{}, fmt.Errorf("frameOld needs an old state")
		}
		var conj []Term
		seen := map[string]bool{}
		for _, a := range e.Args {
			fps, _, err := fr.evalModifies([]string{a.String()}, c.names, c.cur)
			if err != nil {
				return tval{}, err
			}
			for _, fp := range fps {
				if seen[fp.key] {
					continue
				}
				seen[fp.key] = true
				*c.nq++
				l := Sym(fmt.Sprintf("l!f%d_%d", u.nsym, *c.nq), SLoc)
				cur := Select(u.heap(c.cur, fp.key, fp.vs), l, fp.vs)
				old := Select(u.heap(c.old, fp.key, fp.vs), l, fp.vs)
				conj = append(conj, Forall([]Term{l}, Implies(Le(Obj(l), c.old.alloc), Eq(cur, old)), []Term{cur}))
			}
		}
		u.usesQuant = true
		return tval{t: And(conj...), ty: tBool}, nil
	case "sameheap": // sameheap("KEY"): the whole heap KEY is unchanged since the old state
		if e.Args[0].Op != "str" {
			return tval{}, fmt.Errorf("sameheap needs a heap key string")
		}
		key := e.Args[0].Name
		vs, ok := w.heapSorts[key]
		if !ok {
			return tval{}, fmt.Errorf("unknown heap key %q", key)
		}
		return tval{t: Eq(u.heap(c.cur, key, vs), u.heap(c.old, key, vs)), ty: tBool}, nil
	}
	// uninterpreted spec functions declared by "spec" with an empty body are not supported; user spec functions are macros
	if sf, ok := u.cs.SpecFuncs[e.Name]; ok {
		if len(sf.Params) != len(e.Args) {
			return tval{}, fmt.Errorf("%s expects %d arguments", e.Name, len(sf.Params))
		}
		as, err := args()
		if err != nil {
			return tval{}, err
		}
		saved := map[string]*tval{}
		for i, p := range sf.Params {
			if old, ok := c.names[p.Name]; ok {
				o := old
				saved[p.Name] = &o
			} else {
				saved[p.Name] = nil
			}
			c.names[p.Name] = as[i]
		}
		// the macro's parameters shadow function parameters of the same name, also inside old(...) (where a bare
		// parameter name otherwise denotes the argument at entry)
		if c.bound == nil {
			c.bound = map[string]bool{}
		}
		savedBound := map[string]bool{}
		for _, p := range sf.Params {
			savedBound[p.Name] = c.bound[p.Name]
			c.bound[p.Name] = true
		}
		r, err := c.eval(sf.Body)
		for k, v := range savedBound {
			if v {
				c.bound[k] = true
			} else {
				delete(c.bound, k)
			}
		}
		for k, v := range saved {
			if v == nil {
				delete(c.names, k)
			} else {
				c.names[k] = *v
			}
		}
		if err != nil {
			return tval{}, fmt.Errorf("in spec %s: %v", e.Name, err)
		}
		return r, nil
	}
	// libfn("pkg/path.Func", args...): the value the engine gives to a call of a deterministic library function with
	// these argument values (the same uninterpreted function symbol as in deterministicLibResults)
	if e.Name == "libfn" && len(e.Args) >= 1 && e.Args[0].Op == "str" {
		fname := e.Args[0].Name
		var fn *ssa.Function
		for _, pk := range u.w.sh.ld.Prog.AllPackages() {
			if pk.Pkg != nil && strings.HasPrefix(fname, pk.Pkg.Path()+".") {
				if f := pk.Func(fname[len(pk.Pkg.Path())+1:]); f != nil {
					fn = f
				}
			}
		}
		if fn == nil {
			return tval{}, fmt.Errorf("libfn: unknown function %q", fname)
		}
		if !deterministicLibPkgs[fnPkgPath(fn)] && !deterministicLibFuncs[fn.String()] {
			return tval{}, fmt.Errorf("libfn: %s is not modelled as deterministic", fname)
		}
		sig := fn.Signature
		var ts []Term
		var sorts, dyn []string
		for i, a := range e.Args[1:] {
			v, err := c.eval(a)
			if err != nil {
				return tval{}, err
			}
			t := v.t
			if !valueSort(t.Sort) {
				return tval{}, fmt.Errorf("libfn: argument %d is not a value", i)
			}
			ts = append(ts, t)
			sorts = append(sorts, string(t.Sort))
			if sig.Variadic() && i >= sig.Params().Len()-1 {
				ty := v.ty
				if ty == nil {
					ty = tStr
				}
				dyn = append(dyn, dynTypeTag(ty))
			}
		}
		sg := strings.Join(sorts, ",")
		if len(dyn) > 0 {
			sg += ";" + strings.Join(dyn, ",")
		}
		rty := sig.Results().At(0).Type()
		rs := u.w.sortOf(rty)
		name := libFnSymbol(fn.String(), sg, 0)
		u.declareFun(name, sorts, rs)
		if len(ts) == 0 {
			return tval{t: Term{name, rs}, ty: rty}, nil
		}
		return tval{t: mk(rs, name, ts...), ty: rty}, nil
	}
	// uninterpreted functions: uf_NAME(args...) with result sort by suffix convention: name ending in "?" is bool
	if strings.HasPrefix(e.Name, "uf_") || strings.HasPrefix(e.Name, "ufb_") || strings.HasPrefix(e.Name, "ufs_") {
		as, err := args()
		if err != nil {
			return tval{}, err
		}
		rs := SInt
		var rty types.Type = tInt
		if strings.HasPrefix(e.Name, "ufb_") {
			rs, rty = SBool, tBool
		} else if strings.HasPrefix(e.Name, "ufs_") {
			rs, rty = SStr, tStr
		}
		var sorts []string
		var ts []Term
		for _, a := range as {
			sorts = append(sorts, string(a.t.Sort))
			ts = append(ts, a.t)
		}
		name := quoteSym(e.Name)
		u.declareFun(name, sorts, rs)
		if len(ts) == 0 {
			return tval{t: Term{name, rs}, ty: rty}, nil
		}
		return tval{t: mk(rs, name, ts...), ty: rty}, nil
	}
	return tval{}, fmt.Errorf("unknown function %s", e.Name)
}

func asStr(t Term) Term {
	if t.Sort == SBytes {
		return BStr(t)
	}
	return t
}

func (u *Unit) declareFun(name string, argSorts []string, res Sort) {
	key := "fun:" + name
	if u.declared[key] {
		return
	}
	u.declared[key] = true
	u.cmds = append(u.cmds, fmt.Sprintf("(declare-fun %s (%s) %s)", name, strings.Join(argSorts, " "), res))
}
