package main

// preserveLocalsExcept: at a loop/callback head whose body contains a havoc-everything call, non-escaping locals
// keep their value unless the body itself writes their heap key (those are havocked like any loop-written cell).
func (fr *Frame) preserveLocalsExcept(pre, post *State, eff *loopEffects) {
	u := fr.u
	for _, lc := range u.localCells {
		for _, c := range fr.leafCellsAt(lc.typ, lc.addr) {
			if eff.heapKeys[c.key] && !lc.writeOnce {
				continue // the body writes this heap: value unknown at the head
			}
			vs := u.w.sortOf(c.typ)
			old := Select(u.heap(pre, c.key, vs), c.idx, vs)
			h := u.heap(post, c.key, vs)
			u.setHeap(post, c.key, u.define("Hk", Store(h, c.idx, old)))
		}
	}
}
