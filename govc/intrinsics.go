package main

import (
	"fmt"
	"go/types"

	"golang.org/x/tools/go/ssa"
)

type intrinsicFn func(fr *Frame, fn *ssa.Function, args []Term, st *State, site ssa.Instruction, argVals []ssa.Value) ([]Term, *State, bool)

var intrinsics map[string]intrinsicFn

func init() {
	intrinsics = map[string]intrinsicFn{
		"bytes.Compare":   inBytesCompare,
		"bytes.Equal":     inBytesEqual,
		"bytes.HasPrefix": inBytesHasPrefix,
		"strings.HasPrefix": func(fr *Frame, fn *ssa.Function, args []Term, st *State, site ssa.Instruction, av []ssa.Value) ([]Term, *State, bool) {
			fr.u.features["strprefix"] = true
			return []Term{StrPrefix(args[1], args[0])}, st, true
		},
		"strings.TrimPrefix": func(fr *Frame, fn *ssa.Function, args []Term, st *State, site ssa.Instruction, av []ssa.Value) ([]Term, *State, bool) {
			u := fr.u
			u.features["strprefix"] = true
			u.features["strsub"] = true
			s, p := args[0], args[1]
			r := u.define("trim", Ite(StrPrefix(p, s), StrSub(s, StrLen(p), StrLen(s)), s))
			u.assume(True, Implies(StrPrefix(p, s), Eq(StrLen(r), Sub(StrLen(s), StrLen(p)))))
			return []Term{r}, st, true
		},
		"sort.Search":               inSortSearch,
		"sort.Slice":                inSortSlice,
		"sort.Sort":                 inSortSort,
		"(*sync.Mutex).Lock":        lockOp(0, 2, "Lock"),
		"(*sync.Mutex).Unlock":      lockOp(2, 0, "Unlock"),
		"(*sync.RWMutex).Lock":      lockOp(0, 2, "Lock"),
		"(*sync.RWMutex).Unlock":    lockOp(2, 0, "Unlock"),
		"(*sync.RWMutex).RLock":     lockOp(0, 1, "RLock"),
		"(*sync.RWMutex).RUnlock":   lockOp(1, 0, "RUnlock"),
		"(*sync.Once).Do":           inOnceDo,
		"sync/atomic.LoadInt64":     inAtomicLoad,
		"sync/atomic.StoreInt64":    inAtomicStore,
		"sync/atomic.AddInt32":      inAtomicAdd,
		"sync/atomic.CompareAndSwapInt64": inAtomicCAS,
	}
}

func inBytesCompare(fr *Frame, fn *ssa.Function, args []Term, st *State, site ssa.Instruction, av []ssa.Value) ([]Term, *State, bool) {
	u := fr.u
	u.features["strlt"] = true
	a, b := BStr(args[0]), BStr(args[1])
	// exact, given that the order is total: -1 / 0 / +1
	r := Ite(StrLt(a, b), IntLit(-1), Ite(Eq(a, b), IntLit(0), IntLit(1)))
	return []Term{u.define("cmp", r)}, st, true
}

func inBytesEqual(fr *Frame, fn *ssa.Function, args []Term, st *State, site ssa.Instruction, av []ssa.Value) ([]Term, *State, bool) {
	return []Term{Eq(BStr(args[0]), BStr(args[1]))}, st, true
}

func inBytesHasPrefix(fr *Frame, fn *ssa.Function, args []Term, st *State, site ssa.Instruction, av []ssa.Value) ([]Term, *State, bool) {
	fr.u.features["strprefix"] = true
	return []Term{StrPrefix(BStr(args[1]), BStr(args[0]))}, st, true
}

// lockOp models sync mutex operations over the thread-local ghost array 'held' (0 none, 1 read, 2 write).
func lockOp(need, set int64, name string) intrinsicFn {
	return func(fr *Frame, fn *ssa.Function, args []Term, st *State, site ssa.Instruction, av []ssa.Value) ([]Term, *State, bool) {
		u := fr.u
		m := args[0]
		cur := Select(st.held, m, SInt)
		text := fr.srcText(site.Pos(), name)
		if need == 0 {
			u.oblige(fr, "lock-order", site.Pos(), text+": not already held by this thread (self-deadlock)", st.pc, Eq(cur, IntLit(0)), false)
		} else {
			u.oblige(fr, "lock-held", site.Pos(), text+": lock is held in the matching mode", st.pc, Eq(cur, IntLit(need)), false)
		}
		st = st.clone()
		st.held = u.define("held", Store(st.held, m, IntLit(set)))
		if set != 0 {
			// acquiring a lock: state guarded by it may have been changed by other threads since we last held it
			fr.lockAcquired(st, m, av)
		}
		return nil, st, true
	}
}

// inSortSearch: r in [0,n]; pred(r) if r<n; !pred(r-1) if r>0 (true of binary search for any pred).
func inSortSearch(fr *Frame, fn *ssa.Function, args []Term, st *State, site ssa.Instruction, av []ssa.Value) ([]Term, *State, bool) {
	u := fr.u
	if len(av) < 2 {
		return nil, nil, false
	}
	mc, ok := av[1].(*ssa.MakeClosure)
	if !ok {
		return nil, nil, false
	}
	pred := mc.Fn.(*ssa.Function)
	if !u.canInline(pred, true) {
		return nil, nil, false
	}
	var binds []Term
	for _, b := range mc.Bindings {
		binds = append(binds, fr.val(b))
	}
	n := args[0]
	callPred := func(i Term, guard Term) (Term, bool) {
		s := st.clone()
		s.pc = u.define("pc", And(st.pc, guard))
		res, out := fr.inlineCall(pred, []Term{i}, binds, s, site, nil)
		if out == nil || len(res) != 1 {
			return Term{}, false
		}
		return res[0], true
	}
	// 1. the predicate is panic-free on [0,n)
	i := u.fresh("search.i", SInt)
	if _, ok := callPred(i, And(Le(IntLit(0), i), Lt(i, n))); !ok {
		return nil, nil, false
	}
	r := u.fresh("search.r", SInt)
	u.assume(True, And(Le(IntLit(0), r), Le(r, n)))
	// facts about r are obtained by evaluating the predicate at r and r-1 (its obligations are duplicates and dropped)
	snap := len(u.obls)
	pr, ok1 := callPred(r, Lt(r, n))
	pr1, ok2 := callPred(Sub(r, IntLit(1)), Gt(r, IntLit(0)))
	u.obls = u.obls[:snap]
	if ok1 {
		u.assume(st.pc, Implies(Lt(r, n), pr))
	}
	if ok2 {
		u.assume(st.pc, Implies(Gt(r, IntLit(0)), Not(pr1)))
	}
	u.trustedUsed["sort.Search (binary search contract)"]++
	return []Term{r}, st, true
}

// sortPermute havocs the elements of slice s (element type et) by an arbitrary permutation.
func (fr *Frame) sortPermute(st *State, s Term, et types.Type, argVal ssa.Value) (*State, Term) {
	u := fr.u
	w := u.w
	st = st.clone()
	u.nsym++
	perm := quoteSym(fmt.Sprintf("perm!%d", u.nsym))
	pinv := quoteSym(fmt.Sprintf("pinv!%d", u.nsym))
	u.cmds = append(u.cmds, fmt.Sprintf("(declare-fun %s (Int) Int)", perm), fmt.Sprintf("(declare-fun %s (Int) Int)", pinv))
	i := Sym("i!", SInt)
	n := SLen(s)
	p := func(x Term) Term { return mk(SInt, perm, x) }
	q := func(x Term) Term { return mk(SInt, pinv, x) }
	inR := func(x Term) Term { return And(Le(IntLit(0), x), Lt(x, n)) }
	u.assume(st.pc, Forall([]Term{i}, Implies(inR(i), And(inR(p(i)), Eq(q(p(i)), i))), []Term{p(i)}))
	u.assume(st.pc, Forall([]Term{i}, Implies(inR(i), And(inR(q(i)), Eq(p(q(i)), i))), []Term{q(i)}))
	u.assume(st.pc, Forall([]Term{i}, Implies(inR(i), And(inR(q(i)), Eq(p(q(i)), i))), []Term{p(i)}))
	sz := int64(w.sizeOf(et))
	at := func(idx Term) Term { return ElemS(SPtr(s), idx, sz) }
	l := Sym("l!", SLoc)
	for _, c := range fr.leafCellsOf(et) {
		vs := w.sortOf(c.typ)
		h := u.heap(st, c.key, vs)
		h2 := u.fresh("Hs!"+c.key, ArraySort(SLoc, vs))
		var cellIdx func(a Term) Term
		if isComposite(et) {
			// field cell of the element at address a
			f := c
			stt := et.Underlying().(*types.Struct)
			fi := -1
			for k := 0; k < stt.NumFields(); k++ {
				if fr.fieldCell(et, NilLoc, k).key == f.key {
					fi = k
				}
			}
			cellIdx = func(a Term) Term { return fr.fieldCell(et, a, fi).idx }
		} else {
			cellIdx = func(a Term) Term { return a }
		}
		u.assume(st.pc, Forall([]Term{i}, Implies(inR(i), Eq(Select(h2, cellIdx(at(i)), vs), Select(h, cellIdx(at(p(i))), vs))), []Term{Select(h2, cellIdx(at(i)), vs)}))
		// every old element is found at position pinv(i) of the result (trigger: a mention of the old element)
		u.assume(st.pc, Forall([]Term{i}, Implies(inR(i), And(inR(q(i)), Eq(Select(h2, cellIdx(at(q(i))), vs), Select(h, cellIdx(at(i)), vs)))), []Term{Select(h, cellIdx(at(i)), vs)}))
		inRange := And(Eq(Obj(l), Obj(SPtr(s))), Le(Off(SPtr(s)), Off(l)), Lt(Off(l), Add(Off(SPtr(s)), Mul(n, IntLit(sz)))))
		u.assume(st.pc, Forall([]Term{l}, Implies(Not(inRange), Eq(Select(h2, l, vs), Select(h, l, vs))), []Term{Select(h2, l, vs)}))
		u.recordWriteTerm(fr, c.key, SPtr(s), argVal)
		st.heaps[c.key] = h2
	}
	return st, Term{perm, SInt}
}

func inSortSlice(fr *Frame, fn *ssa.Function, args []Term, st *State, site ssa.Instruction, av []ssa.Value) ([]Term, *State, bool) {
	u := fr.u
	if len(av) < 2 {
		return nil, nil, false
	}
	mi, ok := av[0].(*ssa.MakeInterface)
	if !ok {
		return nil, nil, false
	}
	sl, ok := mi.X.Type().Underlying().(*types.Slice)
	if !ok {
		return nil, nil, false
	}
	s := fr.val(mi.X)
	mc, ok := av[1].(*ssa.MakeClosure)
	if !ok {
		return nil, nil, false
	}
	less := mc.Fn.(*ssa.Function)
	var binds []Term
	for _, b := range mc.Bindings {
		binds = append(binds, fr.val(b))
	}
	// less is panic-free on [0,n)^2 in the pre-state (a permutation of the same elements keeps this true:
	// assumption listed in evidence)
	if u.canInline(less, true) {
		i := u.fresh("less.i", SInt)
		j := u.fresh("less.j", SInt)
		g := st.clone()
		g.pc = u.define("pc", And(st.pc, Le(IntLit(0), i), Lt(i, SLen(s)), Le(IntLit(0), j), Lt(j, SLen(s))))
		fr.inlineCall(less, []Term{i, j}, binds, g, site, nil)
	}
	st2, _ := fr.sortPermute(st, s, sl.Elem(), mi.X)
	// sortedness: for fresh symbolic i<j, !less(j,i) in the post-state -- stated for two arbitrary indices chosen
	// by the user of the fact is not expressible without quantifying over the closure; contracts that need
	// sortedness use the sortedBy ghost (see DESIGN). Here: assume it for a pair of skolem-free quantified indices
	// by inlining the closure in "pure" mode.
	if u.canInline(less, true) {
		if t, ok := fr.pureClosure(less, binds, st2, 2); ok {
			i := Sym("si!", SInt)
			j := Sym("sj!", SInt)
			body := Implies(And(Le(IntLit(0), i), Lt(i, j), Lt(j, SLen(s))), Not(t([]Term{j, i})))
			u.assume(st2.pc, Forall([]Term{i, j}, body))
		}
	}
	u.trustedUsed["sort.Slice (permutation + sortedness contract)"]++
	return nil, st2, true
}

func inSortSort(fr *Frame, fn *ssa.Function, args []Term, st *State, site ssa.Instruction, av []ssa.Value) ([]Term, *State, bool) {
	u := fr.u
	if len(av) < 1 {
		return nil, nil, false
	}
	mi, ok := av[0].(*ssa.MakeInterface)
	if !ok {
		return nil, nil, false
	}
	sl, ok := mi.X.Type().Underlying().(*types.Slice)
	if !ok {
		return nil, nil, false
	}
	// find the Less method of the dynamic type
	named, _ := mi.X.Type().(*types.Named)
	if named == nil {
		return nil, nil, false
	}
	prog := u.w.ld.Prog
	mset := prog.MethodSets.MethodSet(named)
	lessSel := mset.Lookup(named.Obj().Pkg(), "Less")
	if lessSel == nil {
		return nil, nil, false
	}
	lessFn := prog.MethodValue(lessSel)
	s := fr.val(mi.X)
	if lessFn != nil && u.canInline(lessFn, true) {
		i := u.fresh("less.i", SInt)
		j := u.fresh("less.j", SInt)
		g := st.clone()
		g.pc = u.define("pc", And(st.pc, Le(IntLit(0), i), Lt(i, SLen(s)), Le(IntLit(0), j), Lt(j, SLen(s))))
		fr.inlineCall(lessFn, []Term{s, i, j}, nil, g, site, nil)
	}
	st2, _ := fr.sortPermute(st, s, sl.Elem(), mi.X)
	if lessFn != nil && u.canInline(lessFn, true) {
		if t, ok := fr.pureFunc(lessFn, st2, 3); ok {
			i := Sym("si!", SInt)
			j := Sym("sj!", SInt)
			body := Implies(And(Le(IntLit(0), i), Lt(i, j), Lt(j, SLen(s))), Not(t([]Term{s, j, i})))
			u.assume(st2.pc, Forall([]Term{i, j}, body))
		}
	}
	u.trustedUsed["sort.Sort (permutation + sortedness contract; Len/Swap assumed standard)"]++
	return nil, st2, true
}

// pureClosure evaluates a loop-free, call-free-ish closure as a pure term of its arguments in state st.
func (fr *Frame) pureClosure(fn *ssa.Function, binds []Term, st *State, nargs int) (func(args []Term) Term, bool) {
	return fr.pureEval(fn, binds, st, nargs)
}

func (fr *Frame) pureFunc(fn *ssa.Function, st *State, nargs int) (func(args []Term) Term, bool) {
	return fr.pureEval(fn, nil, st, nargs)
}

// pureEval symbolically executes fn with placeholder arguments in a mode where no named definitions are
// introduced that depend on the arguments, so that the result can be used under a quantifier.
func (fr *Frame) pureEval(fn *ssa.Function, binds []Term, st *State, nargs int) (func(args []Term) Term, bool) {
	u := fr.u
	if len(fn.Params) != nargs {
		return nil, false
	}
	snap := u.snapshot()
	nfacts := len(u.facts)
	u.pureMode++
	var ph []Term
	for i, p := range fn.Params {
		ph = append(ph, Sym(fmt.Sprintf("PH!%d!", i), u.w.sortOf(p.Type())))
	}
	s := st.clone()
	res, out := fr.inlineCall(fn, ph, binds, s, fn.Blocks[0].Instrs[0], nil)
	u.pureMode--
	// drop obligations and facts produced while evaluating with placeholders; keep only declarations that do
	// not mention placeholders
	u.obls = u.obls[:snap.nobls]
	u.facts = u.facts[:nfacts]
	if out == nil || len(res) != 1 {
		u.restore(snap)
		return nil, false
	}
	body := res[0].S
	for _, cmd := range u.cmds[snap.ncmds:] {
		if containsPH(cmd) {
			u.restore(snap)
			return nil, false
		}
	}
	sort := res[0].Sort
	return func(args []Term) Term {
		b := body
		for i, a := range args {
			b = replaceAll(b, fmt.Sprintf("PH!%d!", i), a.S)
		}
		return Term{b, sort}
	}, true
}

func containsPH(s string) bool {
	return indexOf(s, "PH!") >= 0
}

func indexOf(s, sub string) int {
	for i := 0; i+len(sub) <= len(s); i++ {
		if s[i:i+len(sub)] == sub {
			return i
		}
	}
	return -1
}

func replaceAll(s, old, new string) string {
	out := ""
	for {
		i := indexOf(s, old)
		if i < 0 {
			return out + s
		}
		out += s[:i] + new
		s = s[i+len(old):]
	}
}

func inOnceDo(fr *Frame, fn *ssa.Function, args []Term, st *State, site ssa.Instruction, av []ssa.Value) ([]Term, *State, bool) {
	u := fr.u
	if len(av) < 2 {
		return nil, nil, false
	}
	mc, ok := av[1].(*ssa.MakeClosure)
	if !ok {
		return nil, nil, false
	}
	f := mc.Fn.(*ssa.Function)
	var binds []Term
	for _, b := range mc.Bindings {
		binds = append(binds, fr.val(b))
	}
	// the function runs at most once: nondeterministically now or not at all
	runs := u.fresh("once", SBool)
	a := st.clone()
	a.pc = u.define("pc", And(st.pc, runs))
	_, out := fr.inlineCall(f, nil, binds, a, site, nil)
	b := st.clone()
	b.pc = u.define("pc", And(st.pc, Not(runs)))
	if out == nil {
		return nil, b, true
	}
	return nil, fr.mergeStates([]inEdge{{nil, out, nil}, {nil, b, nil}}), true
}

func inAtomicLoad(fr *Frame, fn *ssa.Function, args []Term, st *State, site ssa.Instruction, av []ssa.Value) ([]Term, *State, bool) {
	u := fr.u
	u.oblige(fr, "nil-deref", site.Pos(), fr.srcText(site.Pos(), "atomic load"), st.pc, Neq(args[0], NilLoc), false)
	// other threads may have written the cell: the value is arbitrary (in range)
	r := u.fresh("atomic", SInt)
	fr.assumeTypeInv(st, r, fn.Signature.Results().At(0).Type())
	return []Term{r}, st, true
}

func inAtomicStore(fr *Frame, fn *ssa.Function, args []Term, st *State, site ssa.Instruction, av []ssa.Value) ([]Term, *State, bool) {
	u := fr.u
	u.oblige(fr, "nil-deref", site.Pos(), fr.srcText(site.Pos(), "atomic store"), st.pc, Neq(args[0], NilLoc), false)
	st = st.clone()
	c := u.w.typeCell(types.Typ[types.Int64], args[0])
	var av0 ssa.Value
	if len(av) > 0 {
		av0 = av[0]
	}
	u.recordWrite(fr, av0, c.key, c.idx)
	fr.storeLeaf(st, c, args[1])
	return nil, st, true
}

func inAtomicAdd(fr *Frame, fn *ssa.Function, args []Term, st *State, site ssa.Instruction, av []ssa.Value) ([]Term, *State, bool) {
	u := fr.u
	u.oblige(fr, "nil-deref", site.Pos(), fr.srcText(site.Pos(), "atomic add"), st.pc, Neq(args[0], NilLoc), false)
	r := u.fresh("atomic", SInt)
	fr.assumeTypeInv(st, r, fn.Signature.Results().At(0).Type())
	st = st.clone()
	c := u.w.typeCell(fn.Signature.Results().At(0).Type(), args[0])
	var av0 ssa.Value
	if len(av) > 0 {
		av0 = av[0]
	}
	u.recordWrite(fr, av0, c.key, c.idx)
	fr.storeLeaf(st, c, r)
	return []Term{r}, st, true
}

func inAtomicCAS(fr *Frame, fn *ssa.Function, args []Term, st *State, site ssa.Instruction, av []ssa.Value) ([]Term, *State, bool) {
	u := fr.u
	u.oblige(fr, "nil-deref", site.Pos(), fr.srcText(site.Pos(), "atomic cas"), st.pc, Neq(args[0], NilLoc), false)
	ok := u.fresh("cas", SBool)
	st = st.clone()
	c := u.w.typeCell(types.Typ[types.Int64], args[0])
	h := u.heap(st, c.key, SInt)
	var av0 ssa.Value
	if len(av) > 0 {
		av0 = av[0]
	}
	u.recordWrite(fr, av0, c.key, c.idx)
	u.setHeap(st, c.key, u.define("H", Ite(ok, Store(h, c.idx, args[2]), h)))
	return []Term{ok}, st, true
}
