package main

import (
	"fmt"
	"strings"
)

// assumeAxioms adds the declared axioms (assumed lemmas of the byte-string theory etc.) as entry facts.
// Each axiom is: forall vars :: (requires...) ==> (ensures...). They are listed as assumptions in the evidence.
func (fr *Frame) assumeAxioms(st *State) {
	u := fr.u
	for _, ax := range u.cs.Lemmas {
		if !ax.Axiom {
			continue
		}
		if pk := fr.pkgTypes(); pk != nil && ax.Scope != "*" && ax.Scope != pk.Name() {
			continue // axioms are given only to the units of the package they were written for
		}
		names := map[string]tval{}
		var vars []Term
		ok := true
		for i, b := range ax.Vars {
			ty, err := u.w.resolveType(fr.pkgTypes(), b.Type)
			if err != nil {
				u.bindErrors = append(u.bindErrors, fmt.Sprintf("axiom %s: %v", ax.Name, err))
				ok = false
				break
			}
			sym := Sym(fmt.Sprintf("%s!ax%d_%d", b.Name, len(u.facts), i), u.w.sortOf(ty))
			vars = append(vars, sym)
			names[b.Name] = tval{t: sym, ty: ty}
		}
		if !ok {
			continue
		}
		ctx := fr.newEvalCtx(st, st, names)
		var hyps, concl []Term
		bad := false
		for _, c := range ax.Hyps {
			v, err := ctx.eval(c.E)
			if err != nil || v.t.Sort != SBool {
				u.bindErrors = append(u.bindErrors, fmt.Sprintf("axiom %s requires %q: %v", ax.Name, c.Text, err))
				bad = true
				break
			}
			hyps = append(hyps, v.t)
		}
		for _, c := range ax.Concl {
			v, err := ctx.eval(c.E)
			if err != nil || v.t.Sort != SBool {
				u.bindErrors = append(u.bindErrors, fmt.Sprintf("axiom %s ensures %q: %v", ax.Name, c.Text, err))
				bad = true
				break
			}
			concl = append(concl, v.t)
		}
		if bad || len(concl) == 0 {
			continue
		}
		// only include axioms whose function symbols the unit can see is unknowable here; they are cheap
		body := Implies(And(hyps...), And(concl...))
		t := Forall(vars, body)
		u.axiomFacts = append(u.axiomFacts, t.S)
		u.usesQuant = true
		u.trustedUsed["axiom "+ax.Name+" ("+strings.TrimSpace(ax.Pkg)+")"]++
	}
}
