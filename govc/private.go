package main

import (
	"go/token"
	"go/types"

	"golang.org/x/tools/go/ssa"
)

// Private arrays: a slice variable of a function whose value is only ever built by this function (nil, make, slice
// literals, append to itself) and only ever used by indexing, len/cap, range, append(arg0), copy and re-slicing owns
// a backing array that no other code can reach: neither a callee with `modifies *` nor an unknown call can write
// its elements (Go has no way to obtain that array). The elements therefore survive every havoc.

// privateSliceValues returns the slice-typed SSA values of fn that belong to such a variable.
func (u *Unit) privateSliceValues(fn *ssa.Function) map[ssa.Value]bool {
	if m, ok := u.privateMemo[fn]; ok {
		return m
	}
	parent := map[ssa.Value]ssa.Value{}
	var find func(v ssa.Value) ssa.Value
	find = func(v ssa.Value) ssa.Value {
		if p, ok := parent[v]; ok && p != v {
			r := find(p)
			parent[v] = r
			return r
		}
		parent[v] = v
		return v
	}
	union := func(a, b ssa.Value) { parent[find(a)] = find(b) }
	bad := map[ssa.Value]bool{} // roots of classes that escape or have an unknown origin
	isSlice := func(v ssa.Value) bool {
		_, ok := v.Type().Underlying().(*types.Slice)
		return ok
	}
	markBad := func(v ssa.Value) { bad[find(v)] = true; bad[v] = true }
	var members []ssa.Value
	// cells of slice type (address-taken or captured variables): a non-escaping Alloc is a member as well
	for _, b := range fn.Blocks {
		for _, in := range b.Instrs {
			v, ok := in.(ssa.Value)
			if !ok {
				continue
			}
			if al, ok := v.(*ssa.Alloc); ok {
				if p, ok := al.Type().Underlying().(*types.Pointer); ok {
					if _, ok := p.Elem().Underlying().(*types.Slice); ok {
						members = append(members, al)
						find(al)
						if u.allocEscapes(al) {
							markBad(al)
						}
						if refs := al.Referrers(); refs != nil {
							for _, r := range *refs {
								if _, ok := r.(*ssa.MakeClosure); ok {
									markBad(al) // captured: the closure's uses are not analysed here
								}
							}
						}
					}
				}
				continue
			}
			if !isSlice(v) || isByteSlice(v.Type()) {
				continue
			}
			members = append(members, v)
			find(v)
			switch x := v.(type) {
			case *ssa.MakeSlice:
			case *ssa.Slice:
				if isSlice(x.X) {
					union(v, x.X)
				} else if al, ok := x.X.(*ssa.Alloc); ok && (al.Comment == "slicelit" || al.Comment == "varargs" || al.Comment == "makeslice") {
					// slice literal / make of constant size: fresh array
				} else {
					markBad(v)
				}
			case *ssa.Phi:
				for _, e := range x.Edges {
					if c, ok := e.(*ssa.Const); ok && c.Value == nil {
						continue
					}
					union(v, e)
				}
			case *ssa.Call:
				if bi, ok := x.Call.Value.(*ssa.Builtin); ok && bi.Name() == "append" {
					if c, ok := x.Call.Args[0].(*ssa.Const); !(ok && c.Value == nil) {
						union(v, x.Call.Args[0])
					}
				} else {
					markBad(v)
				}
			case *ssa.UnOp:
				if x.Op == token.MUL {
					if al, ok := x.X.(*ssa.Alloc); ok {
						union(v, al)
					} else {
						markBad(v)
					}
				} else {
					markBad(v)
				}
			default:
				markBad(v) // parameters are not instructions; extracts, lookups, field loads, conversions: unknown origin
			}
		}
	}
	// uses
	for _, v := range members {
		refs := v.Referrers()
		if refs == nil {
			continue
		}
		_, isCell := v.(*ssa.Alloc)
		for _, r := range *refs {
			switch x := r.(type) {
			case *ssa.DebugRef:
			case *ssa.Phi, *ssa.Slice:
				if isCell {
					markBad(v)
				}
			case *ssa.UnOp:
				if !(isCell && x.Op == token.MUL) {
					markBad(v)
				}
			case *ssa.Store:
				if isCell && x.Addr == v {
					if isSlice(x.Val) {
						if c, ok := x.Val.(*ssa.Const); !(ok && c.Value == nil) {
							if _, isInstr := x.Val.(ssa.Instruction); !isInstr {
								markBad(v) // a parameter / free variable stored into the cell
							} else {
								union(v, x.Val)
							}
						}
					}
				} else if al, ok := x.Addr.(*ssa.Alloc); ok && x.Val == v && !isCell {
					union(v, al)
				} else {
					markBad(v)
				}
			case *ssa.IndexAddr:
				if isCell || x.X != v {
					markBad(v)
					break
				}
				// the element address must only be loaded from / stored to
				if er := x.Referrers(); er != nil {
					for _, e := range *er {
						switch y := e.(type) {
						case *ssa.DebugRef:
						case *ssa.UnOp:
							if y.Op != token.MUL {
								markBad(v)
							}
						case *ssa.Store:
							if y.Addr != x {
								markBad(v)
							}
						default:
							markBad(v)
						}
					}
				}
			case *ssa.Range:
				if isCell {
					markBad(v)
				}
			case *ssa.Call:
				bi, ok := x.Call.Value.(*ssa.Builtin)
				if !ok || isCell {
					markBad(v)
					break
				}
				switch bi.Name() {
				case "len", "cap", "copy":
				case "append":
					if x.Call.Args[0] != v {
						markBad(v) // appended to another slice as the variadic operand: elements copied, array not shared - but keep it simple
					}
				default:
					markBad(v)
				}
			default:
				markBad(v)
			}
		}
	}
	out := map[ssa.Value]bool{}
	for _, v := range members {
		if !bad[find(v)] {
			if _, isCell := v.(*ssa.Alloc); !isCell {
				out[v] = true
			}
		}
	}
	// a class is bad if any member was marked after unions: recheck through the final roots
	for v := range out {
		for _, m := range members {
			if bad[m] && find(m) == find(v) {
				delete(out, v)
				break
			}
		}
	}
	u.privateMemo[fn] = out
	return out
}

// preservePrivateArrays: the elements of the private arrays of the active frames keep their values across a
// havoc-everything event (skipKeys: heaps written by the loop body itself at a loop head).
func (fr *Frame) preservePrivateArrays(pre, post *State, skipKeys map[string]bool) {
	u := fr.u
	done := map[string]bool{}
	for f := fr; f != nil; f = f.parent {
		for v := range u.privateSliceValues(f.fn) {
			t, ok := f.regs[v]
			if !ok || t.Sort != SSlice || done[t.S] {
				continue
			}
			done[t.S] = true
			sl := v.Type().Underlying().(*types.Slice)
			for _, c := range f.leafCellsOf(sl.Elem()) {
				if skipKeys[c.key] {
					continue
				}
				vs := u.w.sortOf(c.typ)
				old := u.heap(pre, c.key, vs)
				h := u.heap(post, c.key, vs)
				l := Sym("l!", SLoc)
				base := SPtr(t)
				u.assume(True, Forall([]Term{l}, Implies(And(Eq(Obj(l), Obj(base)), Gt(Obj(base), IntLit(0))), Eq(Select(h, l, vs), Select(old, l, vs))), []Term{Select(h, l, vs)}))
			}
			u.notes["private arrays keep their elements across havoc"]++
		}
	}
}
