package main

import (
	"fmt"
	"go/token"
	"os"
	"os/exec"
	"path/filepath"
	"strings"
	"sync"

	"golang.org/x/tools/go/packages"
	"golang.org/x/tools/go/ssa"
	"golang.org/x/tools/go/ssa/ssautil"
)

// repoModules lists the modules of /repo that are in scope and the packages loaded from each.
var repoModules = []struct {
	Dir  string // directory below the repo root
	Path string // module path
	Pkgs []string
}{
	{"bigtable", "github.com/fullstorydev/emulators/bigtable", []string{"github.com/fullstorydev/emulators/bigtable/bttest"}},
	{"storage", "github.com/fullstorydev/emulators/storage", []string{"github.com/fullstorydev/emulators/storage/gcsemu", "github.com/fullstorydev/emulators/storage/gcsutil"}},
}

func goEnv() []string {
	env := os.Environ()
	env = append(env, "GOFLAGS=-mod=mod", "GOPROXY=off", "GOSUMDB=off", "GOTOOLCHAIN=local", "GOWORK=off")
	return env
}

// makeHarness creates a scratch module that requires+replaces the repo module, so the go tool
// never has to write into /repo.
func makeHarness(scratch, repoRoot, modDir, modPath string) (string, error) {
	dir := filepath.Join(scratch, "h_"+modDir)
	if err := os.MkdirAll(dir, 0o777); err != nil {
		return "", err
	}
	gomod := fmt.Sprintf("module verifharness/%s\n\ngo 1.22\n\nrequire %s v0.0.0\n\nreplace %s => %s\n", modDir, modPath, modPath, filepath.Join(repoRoot, modDir))
	if err := os.WriteFile(filepath.Join(dir, "go.mod"), []byte(gomod), 0o666); err != nil {
		return "", err
	}
	sum, err := os.ReadFile(filepath.Join(repoRoot, modDir, "go.sum"))
	if err != nil {
		return "", err
	}
	if err := os.WriteFile(filepath.Join(dir, "go.sum"), sum, 0o666); err != nil {
		return "", err
	}
	// a file importing the packages so that `go mod` keeps the requirement
	return dir, nil
}

type Loaded struct {
	Prog *ssa.Program
	Pkgs []*packages.Package // initial packages (in scope)
	SSA  map[string]*ssa.Package
	All  []*packages.Package
}

func loadRepo(repoRoot, scratch string, tags string, overlay map[string][]byte) (*Loaded, error) {
	res := &Loaded{SSA: map[string]*ssa.Package{}}
	var allInitial []*packages.Package
	fset := token.NewFileSet()
	// One load per module (dependency versions are per module); SSA programs are separate per module,
	// but we only need one ssa.Program per module. To keep it simple we build one Program per module
	// and merge the maps (the in-scope packages never reference each other across modules, except
	// gcsemu -> gcsutil which are in the same module).
	type lr struct {
		pkgs []*packages.Package
		err  error
	}
	outs := make([]lr, len(repoModules))
	var wg sync.WaitGroup
	for i, m := range repoModules {
		i, m := i, m
		wg.Add(1)
		go func() {
			defer wg.Done()
			hdir, err := makeHarness(scratch, repoRoot, m.Dir, m.Path)
			if err != nil {
				outs[i].err = err
				return
			}
			cfg := &packages.Config{
				Fset:       fset,
				Mode:       packages.LoadAllSyntax,
				Dir:        hdir,
				Env:        goEnv(),
				BuildFlags: []string{"-tags=" + tags},
				Overlay:    overlay,
			}
			pkgs, err := packages.Load(cfg, m.Pkgs...)
			if err != nil {
				outs[i].err = fmt.Errorf("load %s: %w", m.Dir, err)
				return
			}
			var errs []string
			for _, p := range pkgs {
				for _, e := range p.Errors {
					errs = append(errs, e.Error())
				}
			}
			if len(errs) > 0 {
				outs[i].err = fmt.Errorf("load errors in %s:\n%s", m.Dir, strings.Join(errs, "\n"))
				return
			}
			outs[i].pkgs = pkgs
		}()
	}
	wg.Wait()
	for _, o := range outs {
		if o.err != nil {
			return nil, o.err
		}
		allInitial = append(allInitial, o.pkgs...)
	}
	prog, ssapkgs := ssautil.AllPackages(allInitial, ssa.GlobalDebug|ssa.InstantiateGenerics)
	prog.Build()
	res.Prog = prog
	res.Pkgs = allInitial
	for i, p := range allInitial {
		res.SSA[p.PkgPath] = ssapkgs[i]
	}
	return res, nil
}

func goVersion() string {
	out, _ := exec.Command("go", "version").Output()
	return strings.TrimSpace(string(out))
}
