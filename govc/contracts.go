package main

import (
	"fmt"
	"os"
	"path/filepath"
	"regexp"
	"sort"
	"strconv"
	"strings"
)

// Clause is one requires/ensures/invariant clause (already split into conjuncts).
type Clause struct {
	E     *Expr
	Text  string
	Line  string // file:line of the clause, informational
	Ghost bool   // `callsite CALLEE ghost G == EXPR`: ghost assignment after the call, not an assertion
}

type LoopSpec struct {
	Invariants []Clause
	Unroll     int      // >0: unroll completely (with unwinding assertion)
	Modifies   []string // optional explicit designators
	Decreases  *Expr
}

type GhostDecl struct {
	Name string
	Sort string // "int","bool","map[int]int"...
	// Protocol: a ghost that only records knowledge for a precondition elsewhere (last read epoch, last validated
	// object ...). A callee that does not list it leaves it unchanged as far as its callers are concerned, and no
	// frame obligation is generated for it.
	Protocol bool
}

// Contract of one function (in /repo or trusted).
type Contract struct {
	Key        string // canonical function key, e.g. "bttest.(*table).validTimestamp" or "bytes.Compare"
	Header     string
	Props      []string
	Requires   []Clause
	Ensures    []Clause
	Modifies   []string // designator texts; nil = nothing (pure wrt existing heap); ["*"] = everything
	HasModifies bool
	Loops      map[int]*LoopSpec
	Trusted    bool // body not verified
	Inline     bool
	Pure       bool
	NoSweep    bool   // outside subset: reason in Reason
	Reason     string
	Logical    []Binder
	Ghost      []GhostDecl
	Held       []HeldSpec // lock preconditions
	HeldPost   []HeldSpec // lock postconditions (if different from pre)
	PanicsIff  *Clause
	Callbacks  map[string]*CallbackSpec // closure param name -> spec
	File       string
	Assumes    []Clause // explicitly listed assumptions (counted in evidence)
	CallSites  map[string][]Clause // callee name -> assertions checked (then assumed) before every call of it inside this function
	CallSitesPost map[string][]Clause // callee name -> assertions checked (then assumed) after every call of it
	Used       bool
}

type HeldSpec struct {
	E    *Expr  // expression denoting the mutex (address)
	Mode string // "r","w","none"
}

type CallbackSpec struct {
	Invariants []Clause
	Stops      bool // the callback returns a bool and must not be invoked again after it returned false
}

type ContractSet struct {
	ByKey map[string]*Contract
	// global declarations
	TypeInvs  []TypeInv
	Guards    []GuardDecl
	SpecFuncs map[string]*SpecFunc
	Lemmas    []*Lemma
	Files     []string
	Warnings  []string
	GhostVars []GhostDecl
}

type TypeInv struct {
	Type  string // e.g. btpb.RowFilter_Chain_
	Field string
	Kind  string // "nonnil" | "elems_nonnil"
	Pkg   string // package (by name) in which the declaration was made, for import resolution
}

type GuardDecl struct {
	Type   string // struct type, e.g. server
	Field  string // guarded field
	Lock   string // lock field in the same struct
	LockType string // struct type holding the lock (== Type unless the lock lives in another object)
	Reads  []string
	Writes []string
	Pkg    string
}

type SpecFunc struct {
	Name   string
	Params []Binder
	Result string
	Body   *Expr
	Pkg    string
}

type Lemma struct {
	Name  string
	Props []string
	Vars  []Binder
	Hyps  []Clause
	Concl []Clause
	Pkg   string
	Scope string // package (by name) whose units the axiom is given to: the enclosing scope, else the spec's package
	Axiom bool   // assumed, not proved
}

func newContractSet() *ContractSet {
	return &ContractSet{ByKey: map[string]*Contract{}, SpecFuncs: map[string]*SpecFunc{}}
}

var funcHeaderRe = regexp.MustCompile(`^func\s+(?:\(\s*(?:\w+\s+)?(\*?)\s*([\w.]+)\s*\)\s*)?([\w.$]+)`)

// parseContractText parses the //@ lines of one file. pkgName is the package the file belongs to
// (used to qualify unqualified function names).
func (cs *ContractSet) parseContractText(file, pkgName string, text string) error {
	lines := strings.Split(text, "\n")
	var cur *Contract
	var curLemma *Lemma
	scope := "" // "scope PKG": the following contracts apply only to calls made from units of package PKG
	var lastClause *string // for continuation
	var pending []struct {
		kind string
		text string
		line int
		loop int
		cb   string
	}
	flush := func() error {
		for _, p := range pending {
			where := fmt.Sprintf("%s:%d", filepath.Base(file), p.line)
			e, err := parseExpr(p.text)
			if err != nil {
				return fmt.Errorf("%s: %v", where, err)
			}
			var cls []Clause
			for _, c := range splitConj(e) {
				cls = append(cls, Clause{E: c, Text: c.String(), Line: where})
			}
			if curLemma != nil {
				switch p.kind {
				case "requires":
					curLemma.Hyps = append(curLemma.Hyps, cls...)
				case "ensures":
					curLemma.Concl = append(curLemma.Concl, cls...)
				}
				continue
			}
			if cur == nil {
				return fmt.Errorf("%s: clause outside of a func block", where)
			}
			switch p.kind {
			case "requires":
				cur.Requires = append(cur.Requires, cls...)
			case "ensures":
				cur.Ensures = append(cur.Ensures, cls...)
			case "assume":
				cur.Assumes = append(cur.Assumes, cls...)
			case "invariant":
				ls := cur.loop(p.loop)
				ls.Invariants = append(ls.Invariants, cls...)
			case "cbinv":
				if cur.Callbacks == nil {
					cur.Callbacks = map[string]*CallbackSpec{}
				}
				cb := cur.Callbacks[p.cb]
				if cb == nil {
					cb = &CallbackSpec{}
					cur.Callbacks[p.cb] = cb
				}
				cb.Invariants = append(cb.Invariants, cls...)
			case "callsite":
				if cur.CallSites == nil {
					cur.CallSites = map[string][]Clause{}
				}
				cur.CallSites[p.cb] = append(cur.CallSites[p.cb], cls...)
			case "callsitepost":
				if cur.CallSitesPost == nil {
					cur.CallSitesPost = map[string][]Clause{}
				}
				cur.CallSitesPost[p.cb] = append(cur.CallSitesPost[p.cb], cls...)
			case "callsiteghost":
				if cur.CallSitesPost == nil {
					cur.CallSitesPost = map[string][]Clause{}
				}
				if e.Op != "bin" || e.Name != "==" || len(e.Args) != 2 || e.Args[0].Op != "id" {
					return fmt.Errorf("%s: callsite ghost clause must be G == EXPR", where)
				}
				// ghost assignments come first: assertions after the same call see the updated ghost
				cur.CallSitesPost[p.cb] = append([]Clause{{E: e, Text: "ghost " + e.String(), Line: where, Ghost: true}}, cur.CallSitesPost[p.cb]...)
			case "panics":
				cur.PanicsIff = &Clause{E: e, Text: e.String(), Line: where}
			}
		}
		pending = nil
		return nil
	}
	for ln, raw := range lines {
		l := strings.TrimSpace(raw)
		if !strings.HasPrefix(l, "//@") {
			continue
		}
		l = strings.TrimSpace(l[3:])
		if l == "" {
			continue
		}
		// strip trailing comment "  // ..."
		if i := strings.Index(l, " // "); i >= 0 {
			l = strings.TrimSpace(l[:i])
		}
		if strings.HasPrefix(l, "..") {
			if lastClause == nil {
				return fmt.Errorf("%s:%d: continuation without clause", file, ln+1)
			}
			*lastClause += " " + strings.TrimSpace(l[2:])
			continue
		}
		lastClause = nil
		word, rest := l, ""
		if i := strings.IndexAny(l, " \t"); i >= 0 {
			word, rest = l[:i], strings.TrimSpace(l[i+1:])
		}
		addPending := func(kind, text string, loop int, cb string) {
			pending = append(pending, struct {
				kind string
				text string
				line int
				loop int
				cb   string
			}{kind, text, ln + 1, loop, cb})
			lastClause = &pending[len(pending)-1].text
		}
		switch word {
		case "funcfield":
			// funcfield TYPE.FIELD: contract of the functions stored in a function-typed struct field (like an interface
			// method contract): calls through the field use it, every closure stored into the field is verified
			// against it. Parameters are named as in the field's func type.
			if err := flush(); err != nil {
				return err
			}
			curLemma = nil
			key := pkgName + ".field:" + strings.TrimSpace(rest)
			cur = &Contract{Key: key, Header: l, Loops: map[int]*LoopSpec{}, File: file}
			if _, dup := cs.ByKey[key]; !dup {
				cs.ByKey[key] = cur
			}
		case "func":
			if err := flush(); err != nil {
				return err
			}
			curLemma = nil
			m := funcHeaderRe.FindStringSubmatch(l)
			if m == nil {
				return fmt.Errorf("%s:%d: bad func header %q", file, ln+1, l)
			}
			key := contractKey(pkgName, m[1], m[2], m[3])
			if scope != "" {
				key = scope + "::" + key
			}
			cur = &Contract{Key: key, Header: l, Loops: map[int]*LoopSpec{}, File: file}
			if old, dup := cs.ByKey[key]; dup {
				// first definition wins; the duplicate is parsed but ignored
				cs.Warnings = append(cs.Warnings, fmt.Sprintf("%s:%d: duplicate contract for %s ignored (first defined in %s)", filepath.Base(file), ln+1, key, filepath.Base(old.File)))
			} else {
				cs.ByKey[key] = cur
			}
		case "lemma", "axiom":
			if err := flush(); err != nil {
				return err
			}
			cur = nil
			// lemma NAME(vars)
			name := rest
			var vars []Binder
			if i := strings.Index(rest, "("); i >= 0 && strings.HasSuffix(rest, ")") {
				name = strings.TrimSpace(rest[:i])
				for _, v := range strings.Split(rest[i+1:len(rest)-1], ",") {
					f := strings.Fields(v)
					if len(f) == 1 {
						vars = append(vars, Binder{Name: f[0]})
					} else if len(f) >= 2 {
						vars = append(vars, Binder{Name: f[0], Type: strings.Join(f[1:], "")})
					}
				}
			}
			curLemma = &Lemma{Name: name, Vars: vars, Pkg: pkgName, Scope: scope, Axiom: word == "axiom"}
			if curLemma.Scope == "" {
				curLemma.Scope = pkgName
			}
			cs.Lemmas = append(cs.Lemmas, curLemma)
		case "scope":
			scope = strings.TrimSpace(rest)
			if scope == "*" || scope == "all" {
				scope = ""
			}
		case "property":
			if curLemma != nil {
				curLemma.Props = append(curLemma.Props, strings.Fields(rest)...)
			} else if cur != nil {
				cur.Props = append(cur.Props, strings.Fields(rest)...)
			}
		case "requires", "ensures", "assume":
			addPending(word, rest, 0, "")
		case "callsite":
			// callsite CALLEE requires EXPR: an assertion checked at every call of CALLEE inside this function, over the
			// caller's locals, the arguments (arg0, arg1.. ; for methods arg0 is the receiver) and old(...)
			f := strings.Fields(rest)
			if cur == nil || len(f) < 3 || (f[1] != "requires" && f[1] != "ensures" && f[1] != "ghost") {
				return fmt.Errorf("%s:%d: bad callsite clause (callsite CALLEE requires|ensures|ghost EXPR)", file, ln+1)
			}
			body := strings.TrimSpace(strings.TrimPrefix(strings.TrimSpace(strings.TrimPrefix(rest, f[0])), f[1]))
			if f[1] == "requires" {
				addPending("callsite", body, 0, f[0])
			} else if f[1] == "ghost" {
				// callsite CALLEE ghost G == EXPR: specification-only assignment to the ghost variable G (listed in this
				// contract's modifies) performed right after every call of CALLEE; EXPR is evaluated like an ensures clause
				// of the call site (result names, arg names, locals), with G standing for its value before the assignment
				addPending("callsiteghost", body, 0, f[0])
			} else {
				addPending("callsitepost", body, 0, f[0])
			}
		case "panics":
			rest = strings.TrimSpace(strings.TrimPrefix(rest, "iff"))
			addPending("panics", rest, 0, "")
		case "modifies":
			if cur == nil {
				return fmt.Errorf("%s:%d: modifies outside func", file, ln+1)
			}
			cur.HasModifies = true
			for _, d := range splitTopLevel(rest, ',') {
				d = strings.TrimSpace(d)
				if d != "" && d != "nothing" {
					cur.Modifies = append(cur.Modifies, d)
				}
			}
		case "loop":
			if cur == nil {
				return fmt.Errorf("%s:%d: loop outside func", file, ln+1)
			}
			f := strings.Fields(rest)
			if len(f) < 2 {
				return fmt.Errorf("%s:%d: bad loop clause", file, ln+1)
			}
			n, err := strconv.Atoi(f[0])
			if err != nil {
				return fmt.Errorf("%s:%d: bad loop ordinal", file, ln+1)
			}
			body := strings.TrimSpace(strings.TrimPrefix(strings.TrimSpace(strings.TrimPrefix(rest, f[0])), f[1]))
			switch f[1] {
			case "invariant":
				addPending("invariant", body, n, "")
			case "unroll":
				k, err := strconv.Atoi(body)
				if err != nil {
					return fmt.Errorf("%s:%d: bad unroll count", file, ln+1)
				}
				cur.loop(n).Unroll = k
			case "modifies":
				for _, d := range splitTopLevel(body, ',') {
					cur.loop(n).Modifies = append(cur.loop(n).Modifies, strings.TrimSpace(d))
				}
			case "decreases":
				e, err := parseExpr(body)
				if err != nil {
					return fmt.Errorf("%s:%d: %v", file, ln+1, err)
				}
				cur.loop(n).Decreases = e
			default:
				return fmt.Errorf("%s:%d: unknown loop clause %q", file, ln+1, f[1])
			}
		case "callback":
			f := strings.Fields(rest)
			if len(f) == 2 && f[1] == "stops" && cur != nil {
				if cur.Callbacks == nil {
					cur.Callbacks = map[string]*CallbackSpec{}
				}
				if cur.Callbacks[f[0]] == nil {
					cur.Callbacks[f[0]] = &CallbackSpec{}
				}
				cur.Callbacks[f[0]].Stops = true
				continue
			}
			if len(f) < 3 || (f[1] != "invariant" && f[1] != "assume") {
				return fmt.Errorf("%s:%d: bad callback clause", file, ln+1)
			}
			body := strings.TrimSpace(rest[strings.Index(rest, f[1])+len(f[1]):])
			addPending("cbinv", body, 0, f[0])
		case "trusted":
			cur.Trusted = true
			cur.Reason = rest
		case "inline":
			cur.Inline = true
		case "pure":
			cur.Pure = true
		case "nosweep":
			cur.NoSweep = true
			cur.Reason = rest
		case "logical":
			f := strings.Fields(rest)
			if len(f) >= 1 {
				b := Binder{Name: f[0]}
				if len(f) > 1 {
					b.Type = strings.Join(f[1:], "")
				}
				cur.Logical = append(cur.Logical, b)
			}
		case "ghost":
			f := strings.Fields(rest)
			if len(f) == 2 {
				cur.Ghost = append(cur.Ghost, GhostDecl{Name: f[0], Sort: f[1]})
			}
		case "held", "held_post":
			// held EXPR r|w|none
			f := strings.Fields(rest)
			if len(f) < 2 {
				return fmt.Errorf("%s:%d: bad held clause", file, ln+1)
			}
			mode := f[len(f)-1]
			et := strings.TrimSpace(strings.TrimSuffix(rest, mode))
			e, err := parseExpr(et)
			if err != nil {
				return fmt.Errorf("%s:%d: %v", file, ln+1, err)
			}
			if word == "held" {
				cur.Held = append(cur.Held, HeldSpec{e, mode})
			} else {
				cur.HeldPost = append(cur.HeldPost, HeldSpec{e, mode})
			}
		case "ghostvar":
			// ghostvar NAME int|bool : a global ghost variable (thread-local specification state)
			f := strings.Fields(rest)
			if len(f) < 1 {
				return fmt.Errorf("%s:%d: bad ghostvar", file, ln+1)
			}
			sort := "int"
			if len(f) > 1 {
				sort = f[1]
			}
			cs.GhostVars = append(cs.GhostVars, GhostDecl{Name: f[0], Sort: sort, Protocol: len(f) > 2 && f[2] == "protocol"})
		case "typeinv":
			// typeinv nonnil btpb.RowFilter_Chain_.Chain
			f := strings.Fields(rest)
			if len(f) != 2 {
				return fmt.Errorf("%s:%d: bad typeinv", file, ln+1)
			}
			i := strings.LastIndex(f[1], ".")
			if i < 0 {
				// typeinv pureglobal NAME: a package-level function variable of this package
				cs.TypeInvs = append(cs.TypeInvs, TypeInv{Type: "", Field: f[1], Kind: f[0], Pkg: pkgName})
				break
			}
			cs.TypeInvs = append(cs.TypeInvs, TypeInv{Type: f[1][:i], Field: f[1][i+1:], Kind: f[0], Pkg: pkgName})
		case "guarded_by":
			// guarded_by server.tables server.mu [read=A,B] [write=C,D]
			f := strings.Fields(rest)
			if len(f) < 2 {
				return fmt.Errorf("%s:%d: bad guarded_by", file, ln+1)
			}
			i := strings.LastIndex(f[0], ".")
			j := strings.LastIndex(f[1], ".")
			g := GuardDecl{Type: f[0][:i], Field: f[0][i+1:], Lock: f[1][j+1:], LockType: f[1][:j], Pkg: pkgName}
			for _, x := range f[2:] {
				if strings.HasPrefix(x, "read=") {
					g.Reads = strings.Split(x[5:], ",")
				} else if strings.HasPrefix(x, "write=") {
					g.Writes = strings.Split(x[6:], ",")
				}
			}
			cs.Guards = append(cs.Guards, g)
		case "spec":
			// spec NAME(a T, b U) R = EXPR
			if err := flush(); err != nil {
				return err
			}
			eq := strings.Index(rest, " = ")
			if eq < 0 {
				return fmt.Errorf("%s:%d: bad spec func", file, ln+1)
			}
			head, body := rest[:eq], rest[eq+3:]
			op := strings.Index(head, "(")
			cp := strings.LastIndex(head, ")")
			if op < 0 || cp < op {
				return fmt.Errorf("%s:%d: bad spec func header", file, ln+1)
			}
			sf := &SpecFunc{Name: strings.TrimSpace(head[:op]), Result: strings.TrimSpace(head[cp+1:]), Pkg: pkgName}
			for _, v := range splitTopLevel(head[op+1:cp], ',') {
				f := strings.Fields(v)
				if len(f) == 1 {
					sf.Params = append(sf.Params, Binder{Name: f[0]})
				} else if len(f) >= 2 {
					sf.Params = append(sf.Params, Binder{Name: f[0], Type: strings.Join(f[1:], "")})
				}
			}
			e, err := parseExpr(body)
			if err != nil {
				return fmt.Errorf("%s:%d: %v", file, ln+1, err)
			}
			sf.Body = e
			cs.SpecFuncs[sf.Name] = sf
			// allow continuation of the body
			// (not supported: keep spec funcs on one line)
		default:
			return fmt.Errorf("%s:%d: unknown contract keyword %q", file, ln+1, word)
		}
	}
	if err := flush(); err != nil {
		return err
	}
	cs.Files = append(cs.Files, file)
	return nil
}

func (c *Contract) loop(n int) *LoopSpec {
	ls := c.Loops[n]
	if ls == nil {
		ls = &LoopSpec{}
		c.Loops[n] = ls
	}
	return ls
}

// contractKey builds the canonical key: pkg.Name, pkg.(T).Name, pkg.(*T).Name; a name that already
// contains a dot-qualified package is kept.
func contractKey(pkg, star, recv, name string) string {
	if recv != "" {
		rp := pkg
		if i := strings.LastIndex(recv, "."); i >= 0 {
			rp, recv = recv[:i], recv[i+1:]
		}
		return fmt.Sprintf("%s.(%s%s).%s", rp, star, recv, name)
	}
	if strings.Contains(name, ".") {
		return name
	}
	return pkg + "." + name
}

func splitTopLevel(s string, sep byte) []string {
	var out []string
	depth := 0
	last := 0
	for i := 0; i < len(s); i++ {
		switch s[i] {
		case '(', '[':
			depth++
		case ')', ']':
			depth--
		default:
			if s[i] == sep && depth == 0 {
				out = append(out, s[last:i])
				last = i + 1
			}
		}
	}
	if strings.TrimSpace(s[last:]) != "" {
		out = append(out, s[last:])
	}
	return out
}

// loadContracts reads the guarded contract files of /repo and the trusted specs of /verif.
func loadContracts(repoRoot, verifRoot string) (*ContractSet, error) {
	cs := newContractSet()
	repoDirs := []struct{ dir, pkg string }{
		{"bigtable/bttest", "bttest"},
		{"storage/gcsemu", "gcsemu"},
		{"storage/gcsutil", "gcsutil"},
	}
	for _, d := range repoDirs {
		files, _ := filepath.Glob(filepath.Join(repoRoot, d.dir, "zz_verif_contracts*.go"))
		sort.Strings(files)
		for _, f := range files {
			b, err := os.ReadFile(f)
			if err != nil {
				return nil, err
			}
			if err := cs.parseContractText(f, d.pkg, string(b)); err != nil {
				cs.Warnings = append(cs.Warnings, "CONTRACT FILE IGNORED (syntax error): "+err.Error())
			}
		}
	}
	specs, _ := filepath.Glob(filepath.Join(verifRoot, "contracts", "trusted", "*.spec"))
	sort.Strings(specs)
	for _, sp := range specs {
		b, err := os.ReadFile(sp)
		if err != nil {
			return nil, err
		}
		// the package name is given by a "//@ package NAME" line, default = file base
		pkg := strings.TrimSuffix(filepath.Base(sp), ".spec")
		var sb strings.Builder
		for _, l := range strings.Split(string(b), "\n") {
			t := strings.TrimSpace(l)
			if strings.HasPrefix(t, "#") || t == "" {
				sb.WriteString("\n")
				continue
			}
			if strings.HasPrefix(t, "package ") {
				pkg = strings.TrimSpace(t[8:])
				sb.WriteString("\n")
				continue
			}
			if !strings.HasPrefix(t, "//@") {
				t = "//@ " + t
			}
			sb.WriteString(t + "\n")
		}
		before := map[string]bool{}
		for k := range cs.ByKey {
			before[k] = true
		}
		if err := cs.parseContractText(sp, pkg, sb.String()); err != nil {
			cs.Warnings = append(cs.Warnings, "SPEC FILE IGNORED (syntax error): "+err.Error())
		}
		for k, c := range cs.ByKey {
			if !before[k] {
				c.Trusted = true
				if c.Reason == "" {
					c.Reason = "assumed contract of a dependency (" + filepath.Base(sp) + ")"
				}
			}
		}
	}
	return cs, nil
}
