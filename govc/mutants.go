package main

import (
	"encoding/json"
	"fmt"
	"os"
	"os/exec"
	"path/filepath"
	"sort"
	"strings"
)

// runMutants runs the must-fail corpus of a property: every seeded defect /verif/seeded/<prop>_*/patch.diff is
// applied through an in-memory overlay (never to /repo) and the quick check must report a violation.
func (r *Report) runMutants(prop string) ([]map[string]interface{}, int) {
	dirs, _ := filepath.Glob(filepath.Join(r.Verif, "seeded", "*"))
	sort.Strings(dirs)
	var out []map[string]interface{}
	killed := 0
	for _, d := range dirs {
		patch := filepath.Join(d, "patch.diff")
		if _, err := os.Stat(patch); err != nil {
			continue
		}
		props := mutantProps(d)
		if !hasProp(props, prop) {
			continue
		}
		tmp, err := os.MkdirTemp(os.Getenv("VERIF_SCRATCH"), "govcmut")
		if err != nil {
			continue
		}
		cmd := exec.Command(os.Args[0], "-repo", r.Repo, "-verif", r.Verif, "-props", prop, "-tier", "quick", "-seed", fmt.Sprint(r.Seed),
			"-overlay-patch", patch, "-evidence", filepath.Join(tmp, "ev"), "-replaydir", filepath.Join(tmp, "rp"), "-no-mutants", "-j", fmt.Sprint(r.Jobs))
		b, _ := cmd.CombinedOutput()
		code := cmd.ProcessState.ExitCode()
		var failing []string
		for _, l := range strings.Split(string(b), "\n") {
			l = strings.TrimSpace(l)
			if strings.HasPrefix(l, "obligation ") {
				f := strings.Fields(l)
				if len(f) > 1 {
					failing = append(failing, trimLong(strings.TrimPrefix(l, "obligation "), 160))
				}
			}
		}
		if len(failing) > 5 {
			failing = append(failing[:5], fmt.Sprintf("... and %d more", len(failing)-5))
		}
		res := map[string]interface{}{"mutant": filepath.Base(d), "exit": code, "killed": code == 1, "failing_obligations": failing}
		if code == 2 {
			res["note"] = "UNDECIDED on the mutant (contract no longer binds or patch does not apply): " + firstUndecided(string(b))
		}
		if code == 1 {
			killed++
		}
		out = append(out, res)
		os.RemoveAll(tmp)
		fmt.Printf("mutant %s for %s: exit %d (%s)\n", filepath.Base(d), prop, code, map[bool]string{true: "killed", false: "NOT killed"}[code == 1])
	}
	return out, killed
}

func firstUndecided(s string) string {
	for _, l := range strings.Split(s, "\n") {
		if strings.HasPrefix(l, "UNDECIDED") {
			return trimLong(l, 200)
		}
	}
	return ""
}

// mutantProps: the properties a seeded defect is expected to break: from meta.json ("property", optionally
// "also_breaks"), falling back to the directory name prefix.
func mutantProps(dir string) []string {
	var props []string
	if b, err := os.ReadFile(filepath.Join(dir, "meta.json")); err == nil {
		var m struct {
			Property   string   `json:"property"`
			AlsoBreaks []string `json:"also_breaks"`
		}
		if json.Unmarshal(b, &m) == nil {
			if m.Property != "" {
				props = append(props, m.Property)
			}
			props = append(props, m.AlsoBreaks...)
		}
	}
	if len(props) == 0 {
		base := filepath.Base(dir)
		if i := strings.Index(base, "_"); i > 0 {
			props = append(props, base[:i])
		}
	}
	return props
}
