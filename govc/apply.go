package main

import (
	"fmt"
	"go/token"
	"go/types"
	"strings"

	"golang.org/x/tools/go/ssa"
)

// paramNames returns the names by which a contract refers to receiver and parameters.
func paramNames(sig *types.Signature, fn *ssa.Function, hasRecvArg bool) []string {
	var names []string
	if fn != nil {
		for _, p := range fn.Params {
			names = append(names, p.Name())
		}
		return names
	}
	if hasRecvArg {
		names = append(names, "recv")
	}
	for i := 0; i < sig.Params().Len(); i++ {
		n := sig.Params().At(i).Name()
		if n == "" || n == "_" {
			n = fmt.Sprintf("arg%d", i)
		}
		names = append(names, n)
	}
	return names
}

func paramTypes(sig *types.Signature, fn *ssa.Function, recvType types.Type) []types.Type {
	var ts []types.Type
	if fn != nil {
		for _, p := range fn.Params {
			ts = append(ts, p.Type())
		}
		return ts
	}
	if recvType != nil {
		ts = append(ts, recvType)
	}
	for i := 0; i < sig.Params().Len(); i++ {
		ts = append(ts, sig.Params().At(i).Type())
	}
	return ts
}

func resultNames(sig *types.Signature, res []Term) map[string]tval {
	m := map[string]tval{}
	n := sig.Results().Len()
	for i := 0; i < n && i < len(res); i++ {
		ty := sig.Results().At(i).Type()
		m[fmt.Sprintf("result%d", i)] = tval{t: res[i], ty: ty}
		if nm := sig.Results().At(i).Name(); nm != "" && nm != "_" {
			m[nm] = tval{t: res[i], ty: ty}
		}
	}
	if n == 1 && len(res) == 1 {
		m["result"] = tval{t: res[0], ty: sig.Results().At(0).Type()}
	}
	return m
}

// footprint is the set of locations of one heap key a contract allows to change.
type footprint struct {
	key  string
	cond func(l Term) Term // l in footprint
	vs   Sort
	all  bool
}

// evalModifies turns the designators of a contract into footprints, evaluated in state st with names.
func (fr *Frame) evalModifies(desigs []string, names map[string]tval, st *State) (fps []footprint, everything bool, err error) {
	u := fr.u
	w := u.w
	for _, d := range desigs {
		d = strings.TrimSpace(d)
		if d == "*" || d == "everything" {
			return nil, true, nil
		}
		if d == "fresh" || d == "" || strings.HasPrefix(d, "ghost(") {
			continue
		}
		e, perr := parseExpr(d)
		if perr != nil {
			return nil, false, perr
		}
		ctx := fr.newEvalCtx(st, st, names)
		switch {
		case e.Op == "call" && e.Name == "heap" && len(e.Args) == 1 && e.Args[0].Op == "str":
			key := e.Args[0].Name
			vs, ok := w.heapSorts[key]
			if !ok {
				// declared later / not used: ignore
				continue
			}
			fps = append(fps, footprint{key: key, vs: vs, all: true, cond: func(Term) Term { return True }})
		case e.Op == "call" && e.Name == "elems" && len(e.Args) == 1:
			x, err := ctx.eval(e.Args[0])
			if err != nil {
				return nil, false, err
			}
			sl, ok := x.ty.Underlying().(*types.Slice)
			if !ok || x.t.Sort != SSlice {
				return nil, false, fmt.Errorf("elems() needs a slice: %s", d)
			}
			base := SPtr(x.t)
			for _, c := range fr.leafCellsOf(sl.Elem()) {
				c := c
				fps = append(fps, footprint{key: c.key, vs: w.sortOf(c.typ), cond: func(l Term) Term { return And(Eq(Obj(l), Obj(base)), Neq(Obj(base), IntLit(0))) }})
			}
		case e.Op == "call" && e.Name == "fields" && len(e.Args) == 1:
			x, err := ctx.eval(e.Args[0])
			if err != nil {
				return nil, false, err
			}
			p, ok := x.ty.Underlying().(*types.Pointer)
			if !ok {
				return nil, false, fmt.Errorf("fields() needs a pointer: %s", d)
			}
			for _, c := range fr.leafCellsOf(p.Elem()) {
				c := c
				xt := x.t
				fps = append(fps, footprint{key: c.key, vs: w.sortOf(c.typ), cond: func(l Term) Term { return Eq(Obj(l), Obj(xt)) }})
			}
		case e.Op == "call" && e.Name == "mapof" && len(e.Args) == 1:
			x, err := ctx.eval(e.Args[0])
			if err != nil {
				return nil, false, err
			}
			mt, ok := x.ty.Underlying().(*types.Map)
			if !ok {
				return nil, false, fmt.Errorf("mapof() needs a map: %s", d)
			}
			dk, vk, ks, vs := fr.mapKeys(mt)
			xt := x.t
			fps = append(fps, footprint{key: dk, vs: ArraySort(ks, SBool), cond: func(l Term) Term { return Eq(l, xt) }})
			fps = append(fps, footprint{key: vk, vs: ArraySort(ks, vs), cond: func(l Term) Term { return Eq(l, xt) }})
		case e.Op == "field":
			x, err := ctx.eval1(e.Args[0])
			if err != nil {
				return nil, false, err
			}
			if x.addr {
				if _, isStruct := x.ty.Underlying().(*types.Struct); !isStruct {
					x = ctx.rvalue(x)
				}
			}
			if p, ok := x.ty.Underlying().(*types.Pointer); ok && !x.addr {
				x = tval{t: x.t, ty: p.Elem(), addr: true}
			}
			s, ok := x.ty.Underlying().(*types.Struct)
			if !ok || !x.addr {
				return nil, false, fmt.Errorf("modifies %s: not a field of an addressable struct", d)
			}
			idx := -1
			for i := 0; i < s.NumFields(); i++ {
				if s.Field(i).Name() == e.Name {
					idx = i
				}
			}
			if idx < 0 {
				return nil, false, fmt.Errorf("modifies %s: no such field", d)
			}
			ft := s.Field(idx).Type()
			if isComposite(ft) {
				base := LocAdd(x.t, IntLit(int64(w.fieldOffset(s, idx))))
				for _, c := range fr.leafCellsOf(ft) {
					c := c
					fps = append(fps, footprint{key: c.key, vs: w.sortOf(c.typ), cond: func(l Term) Term { return Eq(Obj(l), Obj(base)) }})
				}
			} else {
				c := fr.fieldCell(x.ty, x.t, idx)
				fps = append(fps, footprint{key: c.key, vs: w.sortOf(c.typ), cond: func(l Term) Term { return Eq(l, c.idx) }})
			}
		case e.Op == "call" && e.Name == "cell" && len(e.Args) == 1:
			x, err := ctx.eval(e.Args[0])
			if err != nil {
				return nil, false, err
			}
			p, ok := x.ty.Underlying().(*types.Pointer)
			if !ok {
				return nil, false, fmt.Errorf("cell() needs a pointer")
			}
			for _, c := range fr.leafCellsOf(p.Elem()) {
				c := c
				xt := x.t
				fps = append(fps, footprint{key: c.key, vs: w.sortOf(c.typ), cond: func(l Term) Term { return Eq(Obj(l), Obj(xt)) }})
			}
		default:
			return nil, false, fmt.Errorf("unsupported modifies designator %q", d)
		}
	}
	return fps, false, nil
}

// leafCellsOf lists (key,type) of all leaf cells of a value of type t (index terms are not meaningful).
func (fr *Frame) leafCellsOf(t types.Type) []cell {
	w := fr.u.w
	var out []cell
	var rec func(t types.Type)
	rec = func(t types.Type) {
		switch ut := t.Underlying().(type) {
		case *types.Struct:
			for i := 0; i < ut.NumFields(); i++ {
				ft := ut.Field(i).Type()
				if isComposite(ft) {
					rec(ft)
				} else {
					out = append(out, fr.fieldCell(t, NilLoc, i))
				}
			}
		case *types.Array:
			rec(ut.Elem())
		default:
			out = append(out, w.typeCell(t, NilLoc))
		}
	}
	rec(t)
	return out
}

// applyContract models a call through the callee's contract.
func (fr *Frame) applyContract(ct *Contract, key string, sig *types.Signature, fn *ssa.Function, args []Term, recvType types.Type, st *State, pos token.Pos, closures map[int]*closureVal) ([]Term, *State) {
	u := fr.u
	ct.Used = true
	if ct.Trusted {
		u.trustedUsed[key]++
	} else {
		u.contractsUsed[key]++
	}
	pn := paramNames(sig, fn, recvType != nil)
	pt := paramTypes(sig, fn, recvType)
	names := map[string]tval{}
	for i := range pn {
		if i < len(args) && i < len(pt) {
			names[pn[i]] = tval{t: args[i], ty: pt[i]}
		}
	}
	for k, e := range u.logical {
		if _, clash := names[k]; !clash {
			names[k] = tval{t: e.val, ty: e.typ}
		}
	}
	// the callee's logical (rigid) variables are universally quantified at the call site
	var logicalVars []Term
	for i, lg := range ct.Logical {
		ty, err := u.w.resolveType(fr.pkgTypes(), lg.Type)
		if err != nil {
			continue
		}
		u.nsym++
		sym := Sym(fmt.Sprintf("%s!lg%d_%d", lg.Name, u.nsym, i), u.w.sortOf(ty))
		logicalVars = append(logicalVars, sym)
		names[lg.Name] = tval{t: sym, ty: ty}
	}
	mentionsLogical := func(t Term) bool {
		for _, v := range logicalVars {
			if strings.Contains(t.S, v.S) {
				return true
			}
		}
		return false
	}
	short := key
	// preconditions
	for _, c := range ct.Requires {
		ctx := fr.newEvalCtx(st, st, names)
		v, err := ctx.eval(c.E)
		if err != nil || v.t.Sort != SBool {
			u.bindErrors = append(u.bindErrors, fmt.Sprintf("contract %s requires %q: %v", key, c.Text, err))
			continue
		}
		goal := v.t
		if mentionsLogical(goal) {
			goal = Forall(logicalVars, goal)
			u.usesQuant = true
		}
		u.oblige(fr, "pre", pos, fmt.Sprintf("%s requires %s", short, c.Text), st.pc, goal, false)
	}
	for _, h := range ct.Held {
		ctx := fr.newEvalCtx(st, st, names)
		m, err := ctx.eval1(h.E)
		if err != nil {
			u.bindErrors = append(u.bindErrors, fmt.Sprintf("contract %s held %s: %v", key, h.E, err))
			continue
		}
		cur := Select(st.held, m.t, SInt)
		var goal Term
		switch h.Mode {
		case "w":
			goal = Eq(cur, IntLit(2))
		case "r":
			goal = Ge(cur, IntLit(1))
		default:
			goal = Eq(cur, IntLit(0))
		}
		u.oblige(fr, "guard", pos, fmt.Sprintf("%s needs %s held %s", short, h.E, h.Mode), st.pc, goal, false)
	}
	pre := st
	post := st.clone()
	if ct.Pure {
		// no effect at all
	} else {
		fps, everything, err := fr.evalModifies(ct.Modifies, names, pre)
		if err != nil {
			u.bindErrors = append(u.bindErrors, fmt.Sprintf("contract %s modifies: %v", key, err))
			everything = true
		}
		a := u.fresh("alloc", SInt)
		u.assume(True, Ge(a, pre.alloc))
		post.alloc = a
		if everything {
			u.nsym++
			post.epoch = 1000000 + u.nsym
			post.heaps = map[string]Term{}
			post.layer = nil
			u.epochAlloc[post.epoch] = a
			fr.preserveLocals(pre, post)
			fr.preservePrivateArrays(pre, post, nil)
			// ghost variables change only if listed explicitly as ghost(NAME) (checked for verified callees by the
			// ghost frame obligation)
		} else {
			// new layer: untouched heaps agree on old objects
			post.layer = &heapLayer{prevHeaps: pre.heaps, prevEpoch: pre.epoch, prevLayer: pre.layer, allocOld: pre.alloc, allocNew: a}
			post.heaps = map[string]Term{}
			byKey := map[string][]footprint{}
			var order []string
			for _, fp := range fps {
				if _, ok := byKey[fp.key]; !ok {
					order = append(order, fp.key)
				}
				byKey[fp.key] = append(byKey[fp.key], fp)
			}
			for _, k := range order {
				vs := byKey[k][0].vs
				old := u.heap(pre, k, vs)
				h := u.fresh("Hc!"+k, ArraySort(SLoc, vs))
				l := Sym("l!", SLoc)
				var conds []Term
				for _, fp := range byKey[k] {
					conds = append(conds, Not(fp.cond(l)))
					u.recordWriteContract(fr, k)
				}
				conds = append(conds, Le(Obj(l), pre.alloc))
				u.assume(True, Forall([]Term{l}, Implies(And(conds...), Eq(Select(h, l, vs), Select(old, l, vs))), []Term{Select(h, l, vs)}))
				u.heapWF(h, vs, a)
				post.heaps[k] = h
			}
		}
	}
	for _, g := range ghostModifies(ct.Modifies) {
		if old, ok := post.ghost[g]; ok {
			post.ghost[g] = u.fresh("g!"+g, old.Sort)
			if g == "epoch" {
				u.assume(True, Gt(post.ghost[g], old)) // epochs only move forward
			}
		}
	}
	// lock post-state
	for _, h := range ct.HeldPost {
		ctx := fr.newEvalCtx(pre, pre, names)
		m, err := ctx.eval1(h.E)
		if err != nil {
			u.bindErrors = append(u.bindErrors, fmt.Sprintf("contract %s held_post %s: %v", key, h.E, err))
			continue
		}
		mode := map[string]int64{"w": 2, "r": 1, "none": 0}[h.Mode]
		post.held = u.define("held", Store(post.held, m.t, IntLit(mode)))
	}
	// closures passed to the callee are invoked zero or more times
	if len(closures) > 0 {
		off := 0
		if recvType != nil {
			off = 1
		}
		for i := 0; i < len(pn); i++ {
			if mc, ok := closures[i-off]; ok && i-off >= 0 {
				if fn != nil && !ct.Trusted && i < len(fn.Params) && !paramInvoked(fn.Params[i], 0) {
					continue // the callee only stores/captures the function value; it is not run during this call
				}
				post = fr.runCallbackLoop(mc, ct, pn[i], post, pos, key, names)
				if post == nil {
					return nil, nil
				}
			}
		}
	}
	res := fr.freshResults(sig.Results(), post, "ret")
	for k, v := range resultNames(sig, res) {
		names[k] = v
	}
	for _, c := range append(append([]Clause{}, ct.Ensures...), ct.Assumes...) {
		ctx := fr.newEvalCtx(post, pre, names)
		v, err := ctx.eval(c.E)
		if err != nil || v.t.Sort != SBool {
			u.bindErrors = append(u.bindErrors, fmt.Sprintf("contract %s ensures %q: %v", key, c.Text, err))
			continue
		}
		fact := v.t
		if mentionsLogical(fact) {
			fact = Forall(logicalVars, fact)
		}
		u.assume(post.pc, fact)
	}
	return res, post
}

// verifyRoot sets up the entry state of the unit's function, runs it and checks the contract at every exit.
func (u *Unit) verifyRoot() {
	fn := u.root
	fr := &Frame{u: u, fn: fn, key: u.rootKey, regs: map[ssa.Value]Term{}, tuples: map[ssa.Value][]Term{}, isRoot: true, contract: u.contract,
		guardedVals: map[ssa.Value]guardedVal{}}
	st := &State{pc: True, heaps: map[string]Term{}, ghost: map[string]Term{}, env: map[string]envEntry{}, defers: [][]deferred{nil}}
	st.alloc = u.fresh("alloc0", SInt)
	u.assume(True, Ge(st.alloc, IntLit(0)))
	u.epochAlloc[0] = st.alloc
	st.held = u.fresh("held0", ArraySort(SLoc, SInt))
	for pi, p := range fn.Params {
		pname := p.Name()
		if pname == "_" || pname == "" {
			pname = fmt.Sprintf("_%d", pi)
		}
		t := u.declareOnce("p:"+pname, u.w.sortOf(p.Type()))
		fr.regs[p] = t
		fr.assumeTypeInv(st, t, p.Type())
	}
	if fn.Signature.Recv() != nil && len(fn.Params) > 0 {
		// methods are only ever invoked on non-nil receivers: implicit precondition, checked at every static call site
		r := fr.regs[fn.Params[0]]
		switch r.Sort {
		case SLoc:
			if _, isPtr := fn.Params[0].Type().Underlying().(*types.Pointer); isPtr {
				u.assume(True, Neq(r, NilLoc))
			}
		}
	}
	for _, fv := range fn.FreeVars {
		t := u.declareOnce("fv:"+fv.Name(), u.w.sortOf(fv.Type()))
		fr.regs[fv] = t
		fr.assumeTypeInv(st, t, fv.Type())
		u.assume(True, Neq(t, NilLoc))
	}
	ct := u.contract
	if ct != nil {
		for _, lg := range ct.Logical {
			ty, err := u.w.resolveType(fr.pkgTypes(), lg.Type)
			if err != nil {
				u.bindErrors = append(u.bindErrors, fmt.Sprintf("%s logical %s: %v", u.rootKey, lg.Name, err))
				continue
			}
			t := u.declareOnce("logical:"+lg.Name, u.w.sortOf(ty))
			u.logical[lg.Name] = envEntry{val: t, typ: ty}
		}
	}
	st.ghost["epoch"] = u.fresh("epoch0", SInt)
	for _, g := range u.cs.GhostVars {
		gs := SInt
		switch g.Sort {
		case "bool":
			gs = SBool
		case "string":
			gs = SStr
		case "loc->int":
			gs = ArraySort(SLoc, SInt)
		case "loc->bool":
			gs = ArraySort(SLoc, SBool)
		}
		st.ghost[g.Name] = u.declareOnce("ghost:"+g.Name, gs)
		if g.Sort == "epoch" {
			// an epoch-valued ghost records a past epoch: never ahead of the current one
			u.assume(True, Le(st.ghost[g.Name], st.ghost["epoch"]))
		}
	}
	if ct := u.contract; ct != nil {
		for pname, cb := range ct.Callbacks {
			if cb.Stops {
				st.ghost["stopped_"+pname] = False
			}
		}
	}
	fr.entry = st.clone()
	st = fr.runPackageInit(st)
	fr.entry = st.clone()
	// lock preconditions
	mayLock := u.w.mayLock(fn)
	if ct != nil && len(ct.Held) > 0 {
		for _, h := range ct.Held {
			ctx := fr.newEvalCtx(st, st, fr.baseNames(st))
			m, err := ctx.eval1(h.E)
			if err != nil {
				u.bindErrors = append(u.bindErrors, fmt.Sprintf("%s held %s: %v", u.rootKey, h.E, err))
				continue
			}
			mode := map[string]int64{"w": 2, "r": 1, "none": 0}[h.Mode]
			u.assume(True, Eq(Select(st.held, m.t, SInt), IntLit(mode)))
		}
	} else if mayLock {
		l := Sym("l!h", SLoc)
		u.assume(True, Forall([]Term{l}, Eq(Select(st.held, l, SInt), IntLit(0)), []Term{Select(st.held, l, SInt)}))
	}
	fr.assumeAxioms(st)
	if ct != nil {
		for _, c := range ct.Requires {
			t, err := fr.evalBool(c.E, st, st)
			if err != nil {
				u.bindErrors = append(u.bindErrors, fmt.Sprintf("%s requires %q: %v", u.rootKey, c.Text, err))
				continue
			}
			u.assume(True, t)
			u.requiresTerms = append(u.requiresTerms, t)
		}
	}
	u.nFactsEntry = len(u.facts)
	exits := fr.run(st)
	sig := fn.Signature
	for _, ex := range exits {
		names := fr.baseNames(nil)
		for k, v := range resultNames(sig, ex.results) {
			names[k] = v
		}
		if ct != nil {
			// ghost assignments: `ensures G == EXPR` for a ghost variable G listed in modifies is the specification-only
			// statement `G = EXPR` executed at the return (ghost code; EXPR is evaluated in the state at the return)
			ghostAssigned := map[int]bool{}
			if u.implOf == "" {
				listed := map[string]bool{}
				for _, g := range ghostModifies(ct.Modifies) {
					listed[g] = true
				}
				for ci, c := range ct.Ensures {
					if c.E == nil || c.E.Op != "bin" || c.E.Name != "==" || len(c.E.Args) != 2 || c.E.Args[0].Op != "id" || !listed[c.E.Args[0].Name] {
						continue
					}
					g := c.E.Args[0].Name
					cur, ok := ex.st.ghost[g]
					if !ok {
						continue
					}
					ctx := fr.newEvalCtx(ex.st, fr.entry, names)
					v, err := ctx.eval(c.E.Args[1])
					if err != nil || v.t.Sort != cur.Sort {
						continue
					}
					ex.st.ghost[g] = u.define("gset!"+g, v.t)
					ghostAssigned[ci] = true
					u.note("ghost assignment at return of %s: %s", u.rootKey, c.Text)
				}
			}
			for ci, c := range ct.Ensures {
				if ghostAssigned[ci] {
					continue
				}
				if u.implOf != "" && u.mentionsGhost(c.E) {
					continue // ghost protocol clauses define the meaning of the interface's ghost state; not an obligation of implementations
				}
				ctx := fr.newEvalCtx(ex.st, fr.entry, names)
				v, err := ctx.eval(c.E)
				if err != nil || v.t.Sort != SBool {
					u.bindErrors = append(u.bindErrors, fmt.Sprintf("%s ensures %q: %v", u.rootKey, c.Text, err))
					continue
				}
				u.oblige(fr, "post", fn.Pos(), c.Text, ex.st.pc, v.t, false)
			}
			// frame
			if !ct.Trusted {
				fr.checkFrame(ct, ex.st, names)
			}
		}
		// lock balance
		if mayLock || (ct != nil && (len(ct.Held) > 0 || len(ct.HeldPost) > 0)) {
			want := fr.entry.held
			if ct != nil {
				for _, h := range ct.HeldPost {
					ctx := fr.newEvalCtx(fr.entry, fr.entry, names)
					m, err := ctx.eval1(h.E)
					if err != nil {
						continue
					}
					mode := map[string]int64{"w": 2, "r": 1, "none": 0}[h.Mode]
					want = Store(want, m.t, IntLit(mode))
				}
			}
			u.oblige(fr, "balance", fn.Pos(), "locks held at return equal locks held at entry", ex.st.pc, Eq(ex.st.held, want), false)
		}
	}
	for _, k := range sortedKeys(u.callsiteErr) {
		if !u.callsiteBound[k] {
			u.bindErrors = append(u.bindErrors, u.callsiteErr[k])
		}
	}
	u.exitCount = len(exits)
	for _, ex := range exits {
		u.exitPCs = append(u.exitPCs, ex.st.pc)
	}
}

// checkFrame: every heap the function changed must be covered by its modifies clause (for pre-existing objects).
func (fr *Frame) checkFrame(ct *Contract, end *State, names map[string]tval) {
	u := fr.u
	fps, everything, err := fr.evalModifies(ct.Modifies, names, fr.entry)
	if err != nil {
		u.bindErrors = append(u.bindErrors, fmt.Sprintf("%s modifies: %v", u.rootKey, err))
		return
	}
	if everything {
		return
	}
	// ghost state: a ghost variable that may differ at the exit must be listed as ghost(NAME)
	if u.implOf == "" {
		listed := map[string]bool{}
		for _, g := range ghostModifies(ct.Modifies) {
			listed[g] = true
		}
		for _, g := range sortedKeys(end.ghost) {
			if listed[g] || g == "epoch" || strings.HasPrefix(g, "visited") || u.protocolGhost(g) {
				continue
			}
			old, ok := fr.entry.ghost[g]
			if !ok || old.S == end.ghost[g].S {
				continue
			}
			u.oblige(fr, "frame", fr.fn.Pos(), "ghost "+g+" changes only if listed in modifies", end.pc, Eq(end.ghost[g], old), false)
		}
	}
	if end.epoch != fr.entry.epoch {
		if u.implOf != "" && len(ct.Callbacks) > 0 {
			// an implementation of an interface method that takes a callback: the callback's effects are attributed to
			// the caller (callback loop at the call sites); the method's own footprint is checked against its own contract
			u.note("frame of %s against %s not checked: effects of the callback parameter", u.rootKey, u.implOf)
			return
		}
		u.oblige(fr, "frame", fr.fn.Pos(), "calls with unknown effects, but the contract has no 'modifies *'", end.pc, False, false)
		return
	}
	if u.implOf != "" && strings.Contains(u.rootKey, "@") {
		// impl-variant unit of a method that has a contract of its own: its exact footprint (which includes the
		// implementation's private state, invisible to the interface's callers) is checked by the own-contract unit
		u.note("frame of %s not checked against the interface contract: checked against the method's own contract", u.rootKey)
		return
	}
	byKey := map[string][]footprint{}
	for _, fp := range fps {
		byKey[fp.key] = append(byKey[fp.key], fp)
	}
	for _, k := range sortedKeys(end.heaps) {
		if strings.HasPrefix(k, "ClosFn") || strings.HasPrefix(k, "CB:") {
			continue
		}
		vs := u.w.heapSorts[k]
		cur := end.heaps[k]
		old := u.heap(fr.entry, k, vs)
		if cur.S == old.S {
			continue
		}
		all := false
		for _, fp := range byKey[k] {
			if fp.all {
				all = true
			}
		}
		if all {
			continue
		}
		u.nsym++
		l := u.fresh("fl", SLoc) // skolem constant of the negated universal
		var conds []Term
		for _, fp := range byKey[k] {
			conds = append(conds, Not(fp.cond(l)))
		}
		conds = append(conds, Le(Obj(l), fr.entry.alloc))
		u.oblige(fr, "frame", fr.fn.Pos(), "only the declared footprint of "+k+" changes", And(append([]Term{end.pc}, conds...)...), Eq(Select(cur, l, vs), Select(old, l, vs)), false)
	}
}

// runCallbackLoop models a callee that invokes the closure mc zero or more times (iterators, walkers):
// the closure body is verified like a loop body against the caller's "callback <name> invariant" clauses,
// under the callee's assumptions about the callback arguments ("callback <param> assume ...").
func (fr *Frame) runCallbackLoop(cv *closureVal, calleeCt *Contract, paramName string, st *State, pos token.Pos, calleeKey string, calleeNames map[string]tval) *State {
	u := fr.u
	fn := cv.fn
	mc := cv.mc
	if !u.canInline(fn, true) {
		u.note("callback %s passed to %s cannot be executed in context", fn.Name(), calleeKey)
		_, st2 := fr.unknownCall("callback "+fn.Name(), types.NewTuple(), st, pos)
		return st2
	}
	binds := cv.binds
	// invariants declared by the caller for this closure
	var invs []Clause
	if fr.contract != nil {
		cname := fn.Name()
		if i := strings.LastIndex(cname, "$"); i >= 0 {
			cname = cname[i:]
		}
		for _, key := range []string{cname, fr.closureVarName(mc)} {
			if key == "" {
				continue
			}
			if cb := fr.contract.Callbacks[key]; cb != nil {
				invs = append(invs, cb.Invariants...)
			}
		}
	}
	var assumes []Clause
	if calleeCt != nil && calleeCt.Callbacks != nil {
		if cb := calleeCt.Callbacks[paramName]; cb != nil {
			assumes = cb.Invariants
		}
	}
	// one symbolic invocation
	invoke := func(s *State, keepObls bool) []Exit {
		child := &Frame{u: u, fn: fn, key: funcKey(fn), regs: map[ssa.Value]Term{}, tuples: map[ssa.Value][]Term{}, depth: fr.depth + 1,
			parent: fr, guardedVals: map[ssa.Value]guardedVal{}, mc: mc, mcFrame: cv.frame}
		child.contract = u.cs.ByKey[child.key]
		names := map[string]tval{}
		for k, v := range calleeNames {
			names[k] = v // the callee's receiver and parameters (entry values), for its "callback P assume" clauses
		}
		s = s.clone()
		// callbacks may receive objects allocated by the callee
		a := u.fresh("alloc", SInt)
		u.assume(True, Ge(a, s.alloc))
		allocBefore := s.alloc
		child.cbStart = &allocBefore
		s.layer = &heapLayer{prevHeaps: s.heaps, prevEpoch: s.epoch, prevLayer: s.layer, allocOld: allocBefore, allocNew: a}
		s.heaps = map[string]Term{}
		s.alloc = a
		for i, p := range fn.Params {
			t := u.fresh("cbarg", u.w.sortOf(p.Type()))
			child.regs[p] = t
			child.assumeTypeInv(s, t, p.Type())
			names[fmt.Sprintf("arg%d", i)] = tval{t: t, ty: p.Type()}
			names[p.Name()] = tval{t: t, ty: p.Type()}
		}
		for i, fv := range fn.FreeVars {
			if i < len(binds) {
				child.regs[fv] = binds[i]
			}
		}
		if calleeCt != nil {
			for _, g := range ghostModifies(calleeCt.Modifies) {
				if old, ok := s.ghost[g]; ok {
					s.ghost[g] = u.fresh("g!"+g, old.Sort)
					if g == "epoch" {
						u.assume(True, Gt(s.ghost[g], old))
					}
				}
			}
		}
		// old(...) in a "callback P assume" clause is the state at the call of the callee (fresh() is relative to the
		// objects that existed when this invocation of the callback started)
		pre := st.clone()
		pre.alloc = allocBefore
		for _, c := range assumes {
			ctx := fr.newEvalCtx(s, pre, names)
			v, err := ctx.eval(c.E)
			if err != nil || v.t.Sort != SBool {
				u.bindErrors = append(u.bindErrors, fmt.Sprintf("contract %s callback %s assume %q: %v", calleeKey, paramName, c.Text, err))
				continue
			}
			u.assume(s.pc, v.t)
		}
		u.inlined[child.key]++
		u.inlineStack = append(u.inlineStack, fn)
		s.defers = append(s.defers, nil)
		savedEnv := s.env
		s.env = map[string]envEntry{}
		child.entry = s.clone()
		exits := child.run(s)
		u.inlineStack = u.inlineStack[:len(u.inlineStack)-1]
		for _, e := range exits {
			e.st.defers = e.st.defers[:len(e.st.defers)-1]
			e.st.env = savedEnv
		}
		return exits
	}
	// invariants on entry
	for _, c := range invs {
		t, err := fr.evalBool(c.E, st, fr.entry)
		if err != nil {
			u.bindErrors = append(u.bindErrors, fmt.Sprintf("%s callback invariant %q: %v", fr.key, c.Text, err))
			continue
		}
		u.oblige(fr, "cb-inv-entry", pos, fmt.Sprintf("callback %s: %s", fn.Name(), c.Text), st.pc, t, false)
	}
	// effects of one invocation
	eff := fr.discoverEffects(func(sub edgeMap) {
		for _, e := range invoke(st, false) {
			sub[edgeKey{nil, nil}] = append(sub[edgeKey{nil, nil}], inEdge{nil, e.st, nil})
		}
	}, st, fr, nil, true)
	stH := st.clone()
	fr.applyHavoc(stH, st, eff)
	for _, c := range invs {
		t, err := fr.evalBool(c.E, stH, fr.entry)
		if err != nil {
			continue
		}
		u.assume(stH.pc, t)
	}
	exits := invoke(stH, true)
	if len(exits) > 0 {
		var pcs []Term
		for _, e := range exits {
			pcs = append(pcs, e.st.pc)
		}
		u.probes = append(u.probes, probe{pc: Or(pcs...), what: fmt.Sprintf("no invocation of the callback %s passed to %s can return under the assumed facts", fn.Name(), calleeKey)})
	}
	for _, e := range exits {
		for _, c := range invs {
			t, err := fr.evalBool(c.E, e.st, fr.entry)
			if err != nil {
				u.bindErrors = append(u.bindErrors, fmt.Sprintf("%s callback invariant %q: %v", fr.key, c.Text, err))
				continue
			}
			u.oblige(fr, "cb-inv-preserved", pos, fmt.Sprintf("callback %s: %s", fn.Name(), c.Text), e.st.pc, t, false)
		}
		u.oblige(fr, "loop-balance", pos, fmt.Sprintf("callback %s: locks held when the callback returns equal those at its start", fn.Name()), e.st.pc, Eq(e.st.held, stH.held), true)
	}
	// after the iteration: any number of invocations happened; the state satisfies the invariant
	return stH
}

// closureVarName finds the source variable a closure value is bound to (e.g. addRow := func...).
func (fr *Frame) closureVarName(mc *ssa.MakeClosure) string {
	refs := mc.Referrers()
	if refs == nil {
		return ""
	}
	for _, r := range *refs {
		if d, ok := r.(*ssa.DebugRef); ok && d.Object() != nil {
			return d.Object().Name()
		}
		if s, ok := r.(*ssa.Store); ok {
			if al, ok := s.Addr.(*ssa.Alloc); ok && al.Comment != "" {
				return al.Comment
			}
		}
	}
	return ""
}

// paramInvoked: may the function-typed parameter be called during the activation of its function?
// (false only if every use is a capture by a closure that is itself not invoked here, or a plain store)
func paramInvoked(p *ssa.Parameter, depth int) bool {
	refs := p.Referrers()
	if refs == nil {
		return false
	}
	for _, r := range *refs {
		switch x := r.(type) {
		case *ssa.DebugRef:
		case *ssa.MakeClosure:
			// captured: the inner closure may call it later; it is called now only if the inner closure is
			if closureInvokedHere(x, depth+1) {
				return true
			}
		case *ssa.Store:
			if x.Val == ssa.Value(p) {
				// stored into a local cell (captured variable): look at the cell's other uses
				if al, ok := x.Addr.(*ssa.Alloc); ok {
					if allocFuncInvoked(al, depth+1) {
						return true
					}
					continue
				}
				return true
			}
		default:
			return true
		}
	}
	return false
}

func closureInvokedHere(mc ssa.Value, depth int) bool {
	if depth > 4 {
		return true
	}
	refs := mc.Referrers()
	if refs == nil {
		return false
	}
	for _, r := range *refs {
		switch x := r.(type) {
		case *ssa.DebugRef:
		case *ssa.Return:
		case *ssa.ChangeType:
			// func literal converted to a named func type (http.HandlerFunc(...)): same value
			if closureInvokedHere(x, depth+1) {
				return true
			}
		case *ssa.Store:
			if _, ok := x.Addr.(*ssa.Alloc); !ok {
				return true
			}
		default:
			return true
		}
	}
	return false
}

func allocFuncInvoked(al *ssa.Alloc, depth int) bool {
	if depth > 4 {
		return true
	}
	refs := al.Referrers()
	if refs == nil {
		return false
	}
	for _, r := range *refs {
		switch x := r.(type) {
		case *ssa.DebugRef, *ssa.Store:
		case *ssa.MakeClosure:
			if closureInvokedHere(x, depth+1) {
				return true
			}
		case *ssa.UnOp:
			// loaded: conservatively assume the loaded value is called
			_ = x
			return true
		default:
			return true
		}
	}
	return false
}
