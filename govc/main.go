package main

import (
	"go/types"
	"context"
	"encoding/json"
	"flag"
	"fmt"
	"os"
	"path/filepath"
	"runtime/debug"
	"sort"
	"strings"
	"sync"
	"time"

	"golang.org/x/tools/go/ssa"
)

type unitResult struct {
	Key      string
	Unit     *Unit
	Err      string // engine failure (UNDECIDED)
	Skipped  string
	Duration time.Duration
}

var safetyKinds = map[string]bool{
	"nil-deref": true, "index": true, "slice-bounds": true, "type-assert": true, "div-zero": true, "nil-map-write": true,
	"neg-make": true, "explicit-panic": true, "balance": true, "lock-order": true, "lock-held": true, "guard": true,
	"pre": true, "loop-balance": true, "unwind": true, "panic-allowed": true, "overflow": true,
}

func newUnit(sh *Shared, cs *ContractSet, fn *ssa.Function) *Unit {
	return newUnitMode(sh, cs, fn, false)
}

// newUnitMode: asImpl = verify fn against the contract of the interface method it implements although it has a
// contract of its own (the loop / callback annotations of its own contract are kept).
func newUnitMode(sh *Shared, cs *ContractSet, fn *ssa.Function, asImpl bool) *Unit {
	w := newWorldShared(sh)
	key := funcKey(fn)
	u := &Unit{w: w, cs: cs, root: fn, rootKey: key, contract: cs.ByKey[key],
		notes: map[string]int{}, trustedUsed: map[string]int{}, inlined: map[string]int{}, declared: map[string]bool{}, oblNames: map[string]int{},
		logical: map[string]envEntry{}, features: map[string]bool{}, libAssumed: map[string]int{}, unknownCalls: map[string]int{},
		contractsUsed: map[string]int{}, typeInvUsed: map[string]int{}, termOrigin: map[string]string{}, guardedTerm: map[string]guardedVal{}, epochAlloc: map[int]Term{}, closureTerms: map[string]*closureVal{}, pureFnTerms: map[string]string{}, escapeMemo: map[*ssa.Alloc]bool{}, privateMemo: map[*ssa.Function]map[ssa.Value]bool{}, fnConsts: map[string]*ssa.Function{}}
	if u.contract == nil || asImpl {
		if ic, alias := ifaceContractFor(sh, cs, fn); ic != nil {
			// behavioural subtyping: the implementation is verified against the interface method's contract
			cp := *ic
			cp.Trusted = false
			cp.Reason = ""
			if own := u.contract; own != nil {
				cp.Loops, cp.Held, cp.HeldPost, cp.Logical = own.Loops, own.Held, own.HeldPost, own.Logical
				// the interface's clauses about its callback parameters stay; the method's own annotations of the
				// closures it creates ("callback $1 invariant") are added
				merged := map[string]*CallbackSpec{}
				for k, v := range ic.Callbacks {
					merged[k] = v
				}
				for k, v := range own.Callbacks {
					if _, clash := merged[k]; !clash {
						merged[k] = v
					}
				}
				cp.Callbacks = merged
				cp.CallSites, cp.CallSitesPost = own.CallSites, own.CallSitesPost
				u.rootKey = key + "@" + ic.Key
			}
			u.contract = &cp
			u.paramAlias = alias
			u.implOf = ic.Key
		}
	}
	if u.contract == nil {
		if fk, ok := sh.fieldOfClosure[fn]; ok {
			if fc := cs.ByKey[fk]; fc != nil {
				// a closure stored into a function-typed field with a `funcfield` contract is verified against it
				cp := *fc
				cp.Trusted = false
				u.contract = &cp
				u.implOf = fk
				u.paramAliasIdx = map[string]int{}
				if nt, fname := fieldContractSig(sh, fk); nt != nil {
					for i := 0; i < nt.Params().Len() && i < len(fn.Params); i++ {
						if n := nt.Params().At(i).Name(); n != "" && n != "_" {
							u.paramAliasIdx[n] = i
						}
					}
					_ = fname
				}
			}
		}
	}
	if u.contract != nil {
		u.props = u.contract.Props
		u.contract.Used = true
	}
	return u
}

// unitProps: the properties a unit's obligations count for: those of its own contract, else of the interface method
// contract it implements, else of the funcfield contract of the field it is stored into.
func unitProps(sh *Shared, cs *ContractSet, fn *ssa.Function) []string {
	if ct := cs.ByKey[funcKey(fn)]; ct != nil {
		return ct.Props
	}
	if ic, _ := ifaceContractFor(sh, cs, fn); ic != nil {
		return ic.Props
	}
	if fk, ok := sh.fieldOfClosure[fn]; ok {
		if fc := cs.ByKey[fk]; fc != nil {
			return fc.Props
		}
	}
	return nil
}

// fieldContractSig: the func type of the field named by a "pkg.field:Type.field" key.
func fieldContractSig(sh *Shared, key string) (*types.Signature, string) {
	i := strings.Index(key, ".field:")
	if i < 0 {
		return nil, ""
	}
	pkgName, rest := key[:i], key[i+len(".field:"):]
	j := strings.LastIndex(rest, ".")
	if j < 0 {
		return nil, ""
	}
	tn, fname := rest[:j], rest[j+1:]
	for _, p := range sh.ld.Pkgs {
		if p.Types.Name() != pkgName {
			continue
		}
		obj := p.Types.Scope().Lookup(tn)
		if obj == nil {
			continue
		}
		st, ok := obj.Type().Underlying().(*types.Struct)
		if !ok {
			continue
		}
		for k := 0; k < st.NumFields(); k++ {
			if st.Field(k).Name() == fname {
				if sig, ok := st.Field(k).Type().Underlying().(*types.Signature); ok {
					return sig, fname
				}
			}
		}
	}
	return nil, ""
}

func runUnit(u *Unit) (err string) {
	defer func() {
		if r := recover(); r != nil {
			err = fmt.Sprintf("engine failure in %s: %v\n%s", u.rootKey, r, debug.Stack())
		}
	}()
	u.verifyRoot()
	return ""
}

func main() {
	repo := flag.String("repo", "/repo", "repository root")
	verif := flag.String("verif", "/verif", "verif root")
	propsFlag := flag.String("props", "", "comma separated property ids (empty: all)")
	tier := flag.String("tier", "quick", "quick|thorough")
	solveAll := flag.Bool("solve-all", false, "send unclaimed / known-finding obligations to the solvers in the quick tier too")
	seed := flag.Int("seed", 0, "solver seed")
	funcFilter := flag.String("func", "", "only units whose key contains this string")
	dump := flag.String("dump", "", "dump SSA of this function key and exit")
	keep := flag.String("keep", "", "directory in which to keep the SMT files")
	timeout := flag.Int("timeout", 0, "per-solver timeout in seconds (default 20 quick / 120 thorough)")
	evidenceDir := flag.String("evidence", "", "directory for evidence files (default <verif>/evidence)")
	listOnly := flag.Bool("list", false, "list obligations without discharging")
	replayFile := flag.String("replay", "", "re-run the counter-example recorded in this replay file and exit")
	overlayPatch := flag.String("overlay-patch", "", "verify /repo with this unified diff applied in memory (used by the must-fail corpus)")
	replayDir := flag.String("replaydir", "", "directory for replay files (default <verif>/replays)")
	noMutants := flag.Bool("no-mutants", false, "thorough tier: skip the must-fail corpus")
	verbose := flag.Bool("v", false, "verbose")
	jobs := flag.Int("j", 16, "parallel solver jobs")
	flag.Parse()
	// the solvers always run with their fixed default seed first (reproducible verdicts); a non-zero -seed / VERIF_SEED is
	// only used for one extra attempt on obligations that are still undecided, so it can never turn a pass into an alarm
	altSeed = fmt.Sprint(*seed)
	t0 := time.Now()
	if *replayFile != "" {
		os.Exit(rerunReplay(*repo, *replayFile))
	}
	if *timeout == 0 {
		*timeout = 20
		if *tier == "thorough" {
			*timeout = 120
		}
	}
	if *evidenceDir == "" {
		*evidenceDir = filepath.Join(*verif, "evidence")
	}
	scratch, err := os.MkdirTemp(os.Getenv("VERIF_SCRATCH"), "govc")
	if err != nil {
		fmt.Println("UNDECIDED: cannot create scratch dir:", err)
		os.Exit(2)
	}
	defer os.RemoveAll(scratch)

	cs, err := loadContracts(*repo, *verif)
	if err != nil {
		fmt.Println("UNDECIDED: contract error:", err)
		os.RemoveAll(scratch)
		os.Exit(2)
	}
	for _, wmsg := range cs.Warnings {
		fmt.Println("WARNING:", wmsg)
	}
	var overlay map[string][]byte
	if *overlayPatch != "" {
		overlay, err = overlayFromPatch(*repo, *overlayPatch, scratch)
		if err != nil {
			fmt.Println("UNDECIDED: cannot apply overlay patch:", err)
			os.RemoveAll(scratch)
			os.Exit(2)
		}
	}
	ld, err := loadRepo(*repo, scratch, "verif", overlay)
	if err != nil {
		fmt.Println("UNDECIDED: load error:", err)
		os.RemoveAll(scratch)
		os.Exit(2)
	}
	tLoad := time.Since(t0)
	sh := newShared(ld, cs)
	if err := sh.bindDecls(cs); err != nil {
		fmt.Println("UNDECIDED: declaration binding error:", err)
		os.RemoveAll(scratch)
		os.Exit(2)
	}

	if *dump != "" {
		for _, fn := range sh.repoFuncs {
			if funcKey(fn) == *dump {
				fn.WriteTo(os.Stdout)
			}
		}
		return
	}

	var props []string
	if *propsFlag != "" {
		props = strings.Split(*propsFlag, ",")
	}
	wantProp := func(ps []string) bool {
		if len(props) == 0 {
			return true
		}
		for _, p := range props {
			if p == "C20" {
				return true
			}
			for _, q := range ps {
				if p == q {
					return true
				}
			}
		}
		return false
	}

	// units: all top-level repo functions
	var fns []*ssa.Function
	implVariant := map[int]bool{}
	for _, fn := range sh.repoFuncs {
		if fn.Parent() != nil || len(fn.Blocks) == 0 {
			continue
		}
		if fn.Synthetic != "" {
			continue // wrappers, thunks, init
		}
		pos := ld.Prog.Fset.Position(fn.Pos())
		if strings.HasSuffix(pos.Filename, ".pb.go") || strings.HasSuffix(pos.Filename, "_test.go") {
			continue
		}
		key := funcKey(fn)
		if *funcFilter != "" && !strings.Contains(key, *funcFilter) {
			continue
		}
		if !wantProp(unitProps(sh, cs, fn)) {
			continue
		}
		fns = append(fns, fn)
	}
	// closures that escape (returned, stored, started as goroutines, handed to libraries) are never executed in
	// context: they are verified as units of their own, with their captured variables unconstrained
	for _, fn := range sh.repoFuncs {
		if fn.Parent() == nil || len(fn.Blocks) == 0 {
			continue
		}
		pos := ld.Prog.Fset.Position(fn.Pos())
		if strings.HasSuffix(pos.Filename, ".pb.go") || strings.HasSuffix(pos.Filename, "_test.go") {
			continue
		}
		key := funcKey(fn)
		if *funcFilter != "" && !strings.Contains(key, *funcFilter) {
			continue
		}
		if !closureEscapesAnywhere(sh, cs, fn) {
			continue
		}
		if !wantProp(unitProps(sh, cs, fn)) {
			continue
		}
		fns = append(fns, fn)
	}
	sort.Slice(fns, func(i, j int) bool { return funcKey(fns[i]) < funcKey(fns[j]) })
	// an implementation of a contracted interface method that has a contract of its own is verified twice:
	// against its own contract, and against the interface's (behavioural subtyping)
	for _, fn := range append([]*ssa.Function(nil), fns...) {
		if fn.Parent() != nil || cs.ByKey[funcKey(fn)] == nil {
			continue
		}
		if ic, _ := ifaceContractFor(sh, cs, fn); ic != nil {
			if !wantProp(ic.Props) {
				continue
			}
			implVariant[len(fns)] = true
			fns = append(fns, fn)
		}
	}

	results := make([]*unitResult, len(fns))
	var wg sync.WaitGroup
	sem := make(chan struct{}, *jobs)
	for i, fn := range fns {
		i, fn := i, fn
		wg.Add(1)
		sem <- struct{}{}
		go func() {
			defer wg.Done()
			defer func() { <-sem }()
			ts := time.Now()
			u := newUnitMode(sh, cs, fn, implVariant[i])
			r := &unitResult{Key: u.rootKey, Unit: u}
			if u.contract != nil && u.contract.Trusted {
				r.Skipped = "trusted: " + u.contract.Reason
			} else if u.contract != nil && u.contract.NoSweep {
				r.Skipped = "outside subset: " + u.contract.Reason
			} else {
				r.Err = runUnit(u)
			}
			r.Duration = time.Since(ts)
			results[i] = r
		}()
	}
	wg.Wait()
	tGen := time.Since(t0) - tLoad

	// collect obligations
	var obls []*Obligation
	id := 0
	for _, r := range results {
		if r.Err != "" || r.Skipped != "" {
			continue
		}
		for _, o := range r.Unit.obls {
			id++
			o.id = id
			obls = append(obls, o)
		}
	}
	// lemmas of the byte-string theory, proved from the witness definition of the order (for the properties that use it)
	if *funcFilter == "" || strings.Contains("theory.bytestrings", *funcFilter) {
		for _, o := range theoryObligations([]string{"C03", "C05", "C11", "C14"}) {
			if wantProp(o.Props) {
				id++
				o.id = id
				obls = append(obls, o)
			}
		}
	}
	if *listOnly {
		for _, o := range obls {
			fmt.Printf("%s\t%s\n", o.Name, o.Pos)
		}
		fmt.Printf("%d obligations in %d units (load %.1fs, gen %.1fs)\n", len(obls), len(fns), tLoad.Seconds(), tGen.Seconds())
		return
	}
	smtDir := scratch
	if *keep != "" {
		smtDir = *keep
		os.MkdirAll(smtDir, 0o777)
	}
	// quick tier: obligations that are not claimed (contracts/unclaimed.txt) or that belong to an open known finding
	// are generated and listed but not sent to the solvers (they are expected to fail and would only burn the budget);
	// the thorough tier solves them as well and reports their current status
	{
		unc := loadUnclaimed(*verif)
		known := loadKnown(*verif)
		for _, o := range obls {
			skip := false
			for _, e := range unc {
				if globMatch(e.pattern, o.Name) {
					skip = true
					break
				}
			}
			if !skip {
				for _, k := range known {
					if k.Status == "open" && globMatch(k.Obligation, o.Name) {
						skip = true
						break
					}
				}
			}
			if skip && *tier != "thorough" && !*solveAll {
				o.Status = "not-attempted"
				o.skipSolve = true
			} else if skip {
				// thorough tier: attempted once with the quick budget, without the retry strategies, to report its
				// current status
				o.lowEffort = true
				o.noSplit = true
			}
		}
	}
	// discharge: first one incremental session per unit, then a per-obligation race for what is left
	{
		var bwg sync.WaitGroup
		bsem := make(chan struct{}, *jobs)
		for _, r := range results {
			if r.Err != "" || r.Skipped != "" || len(r.Unit.obls) == 0 {
				continue
			}
			r := r
			r.Unit.usesStrAt()
			bwg.Add(1)
			bsem <- struct{}{}
			go func() {
				defer bwg.Done()
				defer func() { <-bsem }()
				var todo []*Obligation
				for _, o := range r.Unit.obls {
					if !o.skipSolve {
						todo = append(todo, o)
					}
				}
				batchDischarge(r.Unit, todo, smtDir, 2000)
			}()
		}
		bwg.Wait()
	}
	which := solvers
	var owg sync.WaitGroup
	osem := make(chan struct{}, *jobs/2+1)
	for _, o := range obls {
		o := o
		if o.Status == "discharged" || o.skipSolve {
			continue
		}
		owg.Add(1)
		osem <- struct{}{}
		go func() {
			defer owg.Done()
			defer func() { <-osem }()
			t := *timeout
			if o.lowEffort && t > 20 {
				t = 20
			}
			discharge(o, smtDir, t, which)
		}()
	}
	owg.Wait()
	// thorough tier: every discharged obligation is re-checked by a second solver (z3 4.8.12), individually
	crossChecked, crossDisagree := 0, 0
	if *tier == "thorough" {
		var pwg sync.WaitGroup
		psem := make(chan struct{}, *jobs)
		for _, r := range results {
			if r.Err != "" || r.Skipped != "" || len(r.Unit.obls) == 0 {
				continue
			}
			r := r
			pwg.Add(1)
			psem <- struct{}{}
			go func() {
				defer pwg.Done()
				defer func() { <-psem }()
				coverPass(r.Unit, r.Unit.obls, smtDir)
			}()
		}
		pwg.Wait()
	}
	if *tier == "thorough" {
		var cwg sync.WaitGroup
		var mu sync.Mutex
		csem := make(chan struct{}, *jobs)
		for _, o := range obls {
			if o.Status != "discharged" || o.Cover {
				continue
			}
			o := o
			cwg.Add(1)
			csem <- struct{}{}
			go func() {
				defer cwg.Done()
				defer func() { <-csem }()
				file := filepath.Join(smtDir, fmt.Sprintf("x%06d.smt2", o.id))
				if err := os.WriteFile(file, []byte(o.smtFile(*timeout*1000)), 0o666); err != nil {
					return
				}
				second := solvers[1]
				if strings.HasPrefix(o.Solver, "z3-new") == false {
					second = solvers[0]
				}
				res := runSolver(context.Background(), second, file, 20)
				mu.Lock()
				switch res.status {
				case "unsat":
					crossChecked++
					o.CrossSolver = second.name
				case "sat":
					crossDisagree++
					o.CrossSolver = second.name + " DISAGREES (sat)"
				}
				mu.Unlock()
			}()
		}
		cwg.Wait()
	}
	tSolve := time.Since(t0) - tLoad - tGen

	rep := &Report{Verif: *verif, Repo: *repo, Tier: *tier, Seed: *seed, Props: props, Results: results, Obls: obls, CS: cs,
		TLoad: tLoad, TGen: tGen, TSolve: tSolve, T0: t0, EvidenceDir: *evidenceDir, Verbose: *verbose, Timeout: *timeout, Shared: sh,
		CrossChecked: crossChecked, CrossDisagree: crossDisagree,
		ReplayDir: *replayDir, NoMutants: *noMutants || *overlayPatch != "", Overlay: overlay, Jobs: *jobs}
	code := rep.finish()
	os.RemoveAll(scratch)
	os.Exit(code)
}

func writeJSON(path string, v interface{}) error {
	b, err := json.MarshalIndent(v, "", " ")
	if err != nil {
		return err
	}
	os.MkdirAll(filepath.Dir(path), 0o777)
	return os.WriteFile(path, append(b, '\n'), 0o666)
}
