package main

import (
	"encoding/json"
	"fmt"
	"os"
	"strings"
)

// rerunReplay re-executes the generated test stored in a replay file against the current /repo tree.
func rerunReplay(repo, file string) int {
	b, err := os.ReadFile(file)
	if err != nil {
		fmt.Println("cannot read replay file:", err)
		return 2
	}
	var rp struct {
		Obligation string        `json:"obligation"`
		Function   string        `json:"function"`
		Replay     *replayResult `json:"replay"`
		Output     string        `json:"solver_output"`
	}
	if err := json.Unmarshal(b, &rp); err != nil {
		fmt.Println("bad replay file:", err)
		return 2
	}
	fmt.Println("obligation:", rp.Obligation)
	if rp.Replay == nil || rp.Replay.Test == "" {
		fmt.Println("no executable counter-example recorded (no-failing-input-found); solver output:", firstLine(rp.Output))
		return 0
	}
	// package path from the generated source's package + function key
	pkgPath := ""
	for _, m := range repoModules {
		for _, p := range m.Pkgs {
			if strings.HasSuffix(p, "/"+strings.SplitN(rp.Function, ".", 2)[0]) {
				pkgPath = p
			}
		}
	}
	out, cmdline, err := runReplayTest(repo, pkgPath, nil, rp.Replay.Test)
	fmt.Println(cmdline)
	fmt.Println(out)
	if strings.Contains(out, "VERIF-REPLAY: PANIC:") {
		fmt.Println("REPRODUCED")
		return 1
	}
	if err != nil && !strings.Contains(out, "VERIF-REPLAY: RETURNED") {
		fmt.Println("replay did not run:", err)
		return 2
	}
	fmt.Println("NOT-REPRODUCED on the current tree")
	return 0
}
