package main

import (
	"fmt"
	"go/token"
	"go/types"

	"golang.org/x/tools/go/ssa"
)

// Channel operations have no semantics of their own in govc. A channel that implements a protocol (the one-slot
// channel of gcsutil.countedLock, the Done channel of a context) gets an ASSUMED pseudo-contract, keyed by where the
// channel value comes from:
//
//	chansend_<Struct>_<field> / chanrecv_<Struct>_<field>   channel loaded from a struct field; x = the struct pointer
//	chanrecv_<Type>_<Method>                                channel returned by a method call; x = the receiver
//
// `requires` = the operation is enabled (can proceed without blocking); `modifies ghost(..)` + `ensures` = its effect.
// A blocking select picks an enabled case; a non-blocking select picks its default only if no case with a contract
// is enabled. Operations on channels without a pseudo-contract are a nondeterministic choice without effect.
type chanOp struct {
	ct   *Contract
	base Term
	ty   types.Type
	key  string
}

func (fr *Frame) chanOpFor(ch ssa.Value, send bool) *chanOp {
	u := fr.u
	name := ""
	var base ssa.Value
	switch x := ch.(type) {
	case *ssa.UnOp:
		if x.Op == token.MUL {
			if fa, ok := x.X.(*ssa.FieldAddr); ok {
				if st, ok := derefType(fa.X.Type()).Underlying().(*types.Struct); ok {
					tn := derefType(fa.X.Type()).String()
					if nt, ok := derefType(fa.X.Type()).(*types.Named); ok {
						tn = nt.Obj().Name()
					}
					name = tn + "_" + st.Field(fa.Field).Name()
					base = fa.X
				}
			}
		}
	case *ssa.Call:
		c := x.Common()
		if c.IsInvoke() {
			tn := c.Value.Type().String()
			if nt, ok := c.Value.Type().(*types.Named); ok {
				tn = nt.Obj().Name()
			}
			name = tn + "_" + c.Method.Name()
			base = c.Value
		} else if f := c.StaticCallee(); f != nil && f.Signature.Recv() != nil && len(c.Args) > 0 {
			tn := derefType(f.Signature.Recv().Type()).String()
			if nt, ok := derefType(f.Signature.Recv().Type()).(*types.Named); ok {
				tn = nt.Obj().Name()
			}
			name = tn + "_" + f.Name()
			base = c.Args[0]
		}
	}
	if name == "" || base == nil {
		return nil
	}
	dir := "chanrecv_"
	if send {
		dir = "chansend_"
	}
	pk := fr.pkgTypes()
	if pk == nil {
		return nil
	}
	key := pk.Name() + "." + dir + name
	ct := u.lookupContract(key)
	if ct == nil {
		return nil
	}
	ct.Used = true
	u.trustedUsed[key+" (assumed channel protocol)"]++
	return &chanOp{ct: ct, base: fr.val(base), ty: base.Type(), key: key}
}

// applyChanOps: one of the operations ops[i] (nil = no contract) is performed when chosen[i] holds; none when
// noneChosen holds (default of a non-blocking select; False for blocking operations).
func (fr *Frame) applyChanOps(st *State, ops []*chanOp, chosen []Term, noneChosen Term) *State {
	u := fr.u
	any := false
	for _, op := range ops {
		if op != nil {
			any = true
		}
	}
	if !any {
		return st
	}
	pre := st
	post := st.clone()
	post.ghost = map[string]Term{}
	for k, v := range st.ghost {
		post.ghost[k] = v
	}
	var enabled []Term
	for i, op := range ops {
		if op == nil {
			continue
		}
		names := fr.baseNames(pre)
		names["x"] = tval{t: op.base, ty: op.ty}
		// enabling condition
		en := True
		for _, c := range op.ct.Requires {
			ctx := fr.newEvalCtx(pre, pre, names)
			v, err := ctx.eval(c.E)
			if err != nil || v.t.Sort != SBool {
				u.bindErrors = append(u.bindErrors, fmt.Sprintf("%s requires %q: %v", op.key, c.Text, err))
				continue
			}
			en = And(en, v.t)
		}
		enabled = append(enabled, en)
		u.assume(st.pc, Implies(chosen[i], en))
		// effect: the listed ghosts get new values in the chosen case
		mine := pre.clone()
		mine.ghost = map[string]Term{}
		for k, v := range pre.ghost {
			mine.ghost[k] = v
		}
		for _, g := range ghostModifies(op.ct.Modifies) {
			if old, ok := pre.ghost[g]; ok {
				nv := u.fresh("g!"+g, old.Sort)
				mine.ghost[g] = nv
				if g == "epoch" {
					u.assume(True, Gt(nv, old))
				}
				post.ghost[g] = u.define("g!"+g, Ite(chosen[i], nv, post.ghost[g]))
			}
		}
		for _, c := range op.ct.Ensures {
			ctx := fr.newEvalCtx(mine, pre, names)
			v, err := ctx.eval(c.E)
			if err != nil || v.t.Sort != SBool {
				u.bindErrors = append(u.bindErrors, fmt.Sprintf("%s ensures %q: %v", op.key, c.Text, err))
				continue
			}
			u.assume(st.pc, Implies(chosen[i], v.t))
		}
	}
	if noneChosen.S != "false" {
		u.assume(st.pc, Implies(noneChosen, Not(Or(enabled...))))
	}
	return post
}
