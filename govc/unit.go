package main

import (
	"fmt"
	"go/token"
	"go/types"
	"os"
	"sort"
	"strings"

	"golang.org/x/tools/go/ssa"
)

// Obligation is one proof obligation: under the facts[0:NFacts] of its unit, Guard ==> Goal.
type Obligation struct {
	Name     string
	Kind     string
	Func     string // function key of the unit
	In       string // function key where the instruction lives (differs when inlined)
	Props    []string
	Guard    Term
	Goal     Term
	NFacts   int
	NCmds    int
	Pos      string
	Text     string // clause / source text
	Inferred bool
	unit     *Unit
	// results
	Status  string // "discharged","violated","unknown","timeout","error"
	Solver  string
	TimeS   float64
	Output  string
	SMTSize int
	Cover   bool // a cover query: expected sat
	id      int
	smtPath string
	CrossSolver string
	rawSMT      string
	noSplit     bool
	skipSolve   bool
	lowEffort   bool
	GuardCover  string
}

type envEntry struct {
	val    Term
	typ    types.Type
	isAddr bool // val is the address of the cell holding the variable
}

type deferred struct {
	call *ssa.CallCommon
	args []Term // evaluated args (incl. receiver for methods)
	fnv  Term   // function value for dynamic calls
	site ssa.Instruction
	active Term // condition under which the defer statement was executed ("" = always)
}

// State is the symbolic state at a program point.
type State struct {
	pc     Term
	heaps  map[string]Term
	epoch  int
	alloc  Term
	held   Term
	ghost  map[string]Term
	env    map[string]envEntry
	defers [][]deferred
	layer  *heapLayer
}

func (s *State) clone() *State {
	n := &State{pc: s.pc, epoch: s.epoch, alloc: s.alloc, held: s.held, layer: s.layer}
	n.heaps = make(map[string]Term, len(s.heaps))
	for k, v := range s.heaps {
		n.heaps[k] = v
	}
	n.ghost = make(map[string]Term, len(s.ghost))
	for k, v := range s.ghost {
		n.ghost[k] = v
	}
	n.env = make(map[string]envEntry, len(s.env))
	for k, v := range s.env {
		n.env[k] = v
	}
	n.defers = make([][]deferred, len(s.defers))
	for i, d := range s.defers {
		n.defers[i] = append([]deferred(nil), d...)
	}
	return n
}

// Unit is one verification unit: a function of /repo verified against its contract.
type Unit struct {
	w        *World
	cs       *ContractSet
	root     *ssa.Function
	rootKey  string
	contract *Contract
	props    []string

	cmds  []string
	facts []string
	obls  []*Obligation
	nsym  int
	notes map[string]int
	trustedUsed map[string]int
	inlined     map[string]int
	declared map[string]bool
	oblNames map[string]int

	closureSites []*closureSite
	usesQuant bool
	bindErrors []string
	depth int
	logical map[string]envEntry
	mathArith bool

	features      map[string]bool
	rec           *writeRecorder
	outsideSubset []string
	arithMode     string
	libAssumed    map[string]int
	unknownCalls  map[string]int
	contractsUsed map[string]int
	inlineStack   []*ssa.Function
	requiresTerms []Term
	nFactsEntry   int
	exitCount     int
	pureMode      int
	typeInvUsed   map[string]int
	inInit        bool
	strAtChecked, strAt bool
	termOrigin    map[string]string
	guardedTerm   map[string]guardedVal
	epochAlloc    map[int]Term
	paramAlias    map[string]string
	paramAliasIdx map[string]int // contract parameter name -> index of the root function's parameter (funcfield contracts)
	closureTerms  map[string]*closureVal
	pureFnTerms   map[string]string
	escapeMemo    map[*ssa.Alloc]bool
	fnConsts      map[string]*ssa.Function
	fnConstOrder  []Term
	axiomFacts    []string
	localCells    []localCell
	fieldFnTerms  map[string]string
	callsiteErr   map[string]string
	callsiteBound map[string]bool
	prune         *pruneIndex
	privateMemo   map[*ssa.Function]map[ssa.Value]bool
	implOf        string
	coverStatus   string
	exitPCs       []Term
	exitCover     string
	probes        []probe  // reachability probes (loop bodies, callback bodies): vacuity guard of every run
	vacuous       []string // probes whose path condition is unsatisfiable under the unit's facts
}

type probe struct {
	pc   Term
	what string
}

type closureSite struct {
	id  int
	fn  *ssa.Function
	mc  *ssa.MakeClosure
}

type Exit struct {
	st      *State
	results []Term
}

// Frame is one function activation (the root or an inlined callee/closure).
type Frame struct {
	cbStart  *Term // callback frames: the allocation watermark before the callee allocated this invocation's arguments
	u        *Unit
	fn       *ssa.Function
	key      string
	regs     map[ssa.Value]Term
	tuples   map[ssa.Value][]Term
	entry    *State // state at entry (for old())
	depth    int
	contract *Contract
	isRoot   bool
	parent   *Frame
	argVals  []ssa.Value
	site     ssa.Instruction
	extraNames map[string]tval
	mc         *ssa.MakeClosure
	mcFrame    *Frame
	guardedVals map[ssa.Value]guardedVal
	exits    []Exit
	loopOrd  map[*ssa.BasicBlock]int
	pure     bool // build terms without naming (for use under quantifiers)
}

func (u *Unit) note(format string, args ...interface{}) {
	s := fmt.Sprintf(format, args...)
	u.notes[s]++
}

func (u *Unit) fresh(prefix string, sort Sort) Term {
	u.nsym++
	name := quoteSym(fmt.Sprintf("%s!%d", prefix, u.nsym))
	u.cmds = append(u.cmds, fmt.Sprintf("(declare-const %s %s)", name, sort))
	return Term{name, sort}
}

// define names a term (keeps VCs linear in size).
func (u *Unit) define(prefix string, t Term) Term {
	if len(t.S) < 40 || u.pureMode > 0 {
		return t
	}
	u.nsym++
	name := quoteSym(fmt.Sprintf("%s!%d", prefix, u.nsym))
	if strings.Contains(t.S, "(ite ") {
		// opaque constant + defining equation: keeps quantifier patterns that mention the name ite-free
		u.cmds = append(u.cmds, fmt.Sprintf("(declare-const %s %s)\n(assert (= %s %s))", name, t.Sort, name, t.S))
	} else {
		u.cmds = append(u.cmds, fmt.Sprintf("(define-fun %s () %s %s)", name, t.Sort, t.S))
	}
	return Term{name, t.Sort}
}

func (u *Unit) declareOnce(name string, sort Sort) Term {
	q := quoteSym(name)
	if !u.declared[q] {
		u.declared[q] = true
		u.cmds = append(u.cmds, fmt.Sprintf("(declare-const %s %s)", q, sort))
	}
	return Term{q, sort}
}

func (u *Unit) assume(guard, fact Term) {
	t := Implies(guard, fact)
	if t.S == "true" {
		return
	}
	if strings.Contains(t.S, "(forall ") || strings.Contains(t.S, "(exists ") {
		u.usesQuant = true
	}
	u.facts = append(u.facts, t.S)
}

func (u *Unit) posString(pos token.Pos) string {
	if !pos.IsValid() {
		return "?"
	}
	p := u.w.ld.Prog.Fset.Position(pos)
	return fmt.Sprintf("%s:%d", shortPath(p.Filename), p.Line)
}

func (u *Unit) oblige(fr *Frame, kind string, pos token.Pos, text string, guard, goal Term, inferred bool) *Obligation {
	if goal.S == "true" {
		return nil
	}
	posStr := ""
	if pos.IsValid() {
		p := u.w.ld.Prog.Fset.Position(pos)
		posStr = fmt.Sprintf("%s:%d", shortPath(p.Filename), p.Line)
	}
	in := u.rootKey
	if fr != nil {
		in = fr.key
	}
	base := fmt.Sprintf("%s/%s[%s]", in, kind, text)
	if in != u.rootKey {
		base = fmt.Sprintf("%s/%s@%s[%s]", u.rootKey, kind, in, text)
	}
	u.oblNames[base]++
	name := fmt.Sprintf("%s#%d", base, u.oblNames[base])
	o := &Obligation{Name: name, Kind: kind, Func: u.rootKey, In: in, Props: u.props, Guard: guard, Goal: goal,
		NFacts: len(u.facts), NCmds: len(u.cmds), Pos: posStr, Text: text, Inferred: inferred, unit: u}
	u.obls = append(u.obls, o)
	return o
}

func shortPath(p string) string {
	if i := strings.Index(p, "/repo/"); i >= 0 {
		return p[i+6:]
	}
	if i := strings.Index(p, "/pkg/mod/"); i >= 0 {
		return p[i+9:]
	}
	return p
}

// heap returns the current term of heap key in state st.
func (u *Unit) heap(st *State, key string, valSort Sort) Term {
	return u.heapResolve(st.heaps, st.epoch, st.layer, key, valSort)
}

func (u *Unit) setHeap(st *State, key string, t Term) {
	st.heaps[key] = t
}

// funcKey returns the canonical contract key of an SSA function.
func funcKey(f *ssa.Function) string {
	if f == nil {
		return "<nil>"
	}
	if f.Parent() != nil {
		// anonymous function: parent$N
		name := f.Name()
		if i := strings.LastIndex(name, "$"); i >= 0 {
			return funcKey(f.Parent()) + name[i:]
		}
		return funcKey(f.Parent()) + "$" + name
	}
	pkg := ""
	if f.Pkg != nil {
		pkg = f.Pkg.Pkg.Name()
	} else if f.Object() != nil && f.Object().Pkg() != nil {
		pkg = f.Object().Pkg().Name()
	}
	if recv := f.Signature.Recv(); recv != nil {
		t := recv.Type()
		star := ""
		if p, ok := t.(*types.Pointer); ok {
			star = "*"
			t = p.Elem()
		}
		tn := types.TypeString(t, func(*types.Package) string { return "" })
		if n, ok := t.(*types.Named); ok {
			tn = n.Obj().Name()
			if n.Obj().Pkg() != nil {
				pkg = n.Obj().Pkg().Name()
			}
		}
		name := f.Name()
		// strip wrapper/thunk/bound suffixes
		name = strings.TrimSuffix(strings.TrimSuffix(name, "$bound"), "$thunk")
		return fmt.Sprintf("%s.(%s%s).%s", pkg, star, tn, name)
	}
	return pkg + "." + f.Name()
}

// methodKey for an interface method (abstract call).
func ifaceMethodKey(recv types.Type, name string) string {
	recv = types.Unalias(recv)
	pkg := ""
	tn := types.TypeString(recv, func(*types.Package) string { return "" })
	if n, ok := recv.(*types.Named); ok {
		tn = n.Obj().Name()
		if n.Obj().Pkg() != nil {
			pkg = n.Obj().Pkg().Name()
		}
	}
	if pkg == "" {
		return fmt.Sprintf("(%s).%s", tn, name)
	}
	return fmt.Sprintf("%s.(%s).%s", pkg, tn, name)
}

type loopInfo struct {
	head   *ssa.BasicBlock
	body   map[*ssa.BasicBlock]bool
	ord    int
	latches []*ssa.BasicBlock
}

// findLoops computes natural loops (back edge b->h where h dominates b).
func findLoops(fn *ssa.Function) map[*ssa.BasicBlock]*loopInfo {
	loops := map[*ssa.BasicBlock]*loopInfo{}
	for _, b := range fn.Blocks {
		for _, s := range b.Succs {
			if s.Dominates(b) {
				li := loops[s]
				if li == nil {
					li = &loopInfo{head: s, body: map[*ssa.BasicBlock]bool{s: true}}
					loops[s] = li
				}
				li.latches = append(li.latches, b)
				// collect body: nodes reaching b without passing through s
				var stack []*ssa.BasicBlock
				if !li.body[b] {
					li.body[b] = true
					stack = append(stack, b)
				}
				for len(stack) > 0 {
					x := stack[len(stack)-1]
					stack = stack[:len(stack)-1]
					for _, p := range x.Preds {
						if !li.body[p] {
							li.body[p] = true
							stack = append(stack, p)
						}
					}
				}
			}
		}
	}
	// ordinals in source order of the loop head position
	var heads []*ssa.BasicBlock
	for h := range loops {
		heads = append(heads, h)
	}
	posOf := func(h *ssa.BasicBlock) token.Pos {
		best := token.NoPos
		for _, in := range h.Instrs {
			if p := in.Pos(); p.IsValid() && (best == token.NoPos || p < best) {
				best = p
			}
		}
		if best == token.NoPos {
			// a range loop's head has no positioned instruction: use its successors inside the loop body
			for _, s := range h.Succs {
				if !loops[h].body[s] {
					continue
				}
				for _, in := range s.Instrs {
					if p := in.Pos(); p.IsValid() && (best == token.NoPos || p < best) {
						best = p
					}
				}
			}
		}
		if best == token.NoPos {
			best = blockPos(h)
		}
		return best
	}
	sort.Slice(heads, func(i, j int) bool {
		pi, pj := posOf(heads[i]), posOf(heads[j])
		if pi != pj {
			return pi < pj
		}
		return heads[i].Index < heads[j].Index
	})
	for i, h := range heads {
		loops[h].ord = i + 1
	}
	if os.Getenv("GOVC_LOOPORD") != "" {
		old := append([]*ssa.BasicBlock(nil), heads...)
		sort.Slice(old, func(i, j int) bool {
			pi, pj := blockPos(old[i]), blockPos(old[j])
			if pi != pj {
				return pi < pj
			}
			return old[i].Index < old[j].Index
		})
		for i := range old {
			if old[i] != heads[i] {
				fmt.Fprintf(os.Stderr, "LOOPORD differs: %s\n", fn.String())
				break
			}
		}
	}
	return loops
}

func blockPos(b *ssa.BasicBlock) token.Pos {
	// position of the loop: smallest valid position among the instructions of the head and its latch
	best := token.NoPos
	for _, in := range b.Instrs {
		if p := in.Pos(); p.IsValid() && (best == token.NoPos || p < best) {
			best = p
		}
	}
	if best == token.NoPos {
		for _, s := range b.Succs {
			for _, in := range s.Instrs {
				if p := in.Pos(); p.IsValid() && (best == token.NoPos || p < best) {
					best = p
				}
			}
		}
	}
	return best
}

// rpo returns the blocks in reverse post order ignoring back edges.
func rpo(fn *ssa.Function) []*ssa.BasicBlock {
	seen := map[*ssa.BasicBlock]bool{}
	var post []*ssa.BasicBlock
	var dfs func(b *ssa.BasicBlock)
	dfs = func(b *ssa.BasicBlock) {
		seen[b] = true
		for _, s := range b.Succs {
			if s.Dominates(b) {
				continue // back edge
			}
			if !seen[s] {
				dfs(s)
			}
		}
		post = append(post, b)
	}
	if len(fn.Blocks) > 0 {
		dfs(fn.Blocks[0])
	}
	for i, j := 0, len(post)-1; i < j; i, j = i+1, j-1 {
		post[i], post[j] = post[j], post[i]
	}
	return post
}
