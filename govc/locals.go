package main

import (
	"go/token"
	"go/types"

	"golang.org/x/tools/go/ssa"
)

// localCell is an addressable local variable of the running activation(s) whose address never escapes: no callee
// can reach it except through closures that are executed in context.
type localCell struct {
	addr      Term
	typ       types.Type
	writeOnce bool // assigned once (initialisation) and only read afterwards: nothing in a loop body can change it
}

// allocEscapes: may code outside this unit's in-context execution obtain the address of the Alloc?
func (u *Unit) allocEscapes(a *ssa.Alloc) bool {
	if v, ok := u.escapeMemo[a]; ok {
		return v
	}
	res := u.addrEscapes(a, 0)
	u.escapeMemo[a] = res
	return res
}

func (u *Unit) addrEscapes(v ssa.Value, depth int) bool {
	if depth > 6 {
		return true
	}
	refs := v.Referrers()
	if refs == nil {
		return false
	}
	for _, r := range *refs {
		switch x := r.(type) {
		case *ssa.DebugRef:
		case *ssa.UnOp:
			if x.Op != token.MUL {
				return true
			}
		case *ssa.Store:
			if x.Val == v {
				return true
			}
		case *ssa.FieldAddr:
			if u.addrEscapes(x, depth+1) {
				return true
			}
		case *ssa.IndexAddr:
			if x.X != v || u.addrEscapes(x, depth+1) {
				return true
			}
		case *ssa.MakeClosure:
			// captured by reference: fine as long as the closure itself is only run in context
			if u.closureEscapes(x, depth+1) {
				return true
			}
		default:
			return true
		}
	}
	return false
}

// closureEscapes: the closure value may be invoked by code we do not execute in context.
func (u *Unit) closureEscapes(mc *ssa.MakeClosure, depth int) bool {
	return u.fnValueEscapes(mc, depth, map[ssa.Value]bool{})
}

// fnValueEscapes: v is a closure value or a phi of closure values (inRangeStart := f; switch { inRangeStart = g }).
func (u *Unit) fnValueEscapes(mc ssa.Value, depth int, seen map[ssa.Value]bool) bool {
	if seen[mc] {
		return false
	}
	seen[mc] = true
	refs := mc.Referrers()
	if refs == nil {
		return false
	}
	for _, r := range *refs {
		switch x := r.(type) {
		case *ssa.DebugRef:
		case *ssa.Phi:
			if depth > 6 || u.fnValueEscapes(x, depth+1, seen) {
				return true
			}
		case *ssa.Defer:
			if x.Call.Value != mc {
				return true
			}
		case *ssa.Call:
			if x.Call.Value == mc {
				continue // called directly
			}
			// passed as an argument: fine if the callee is handled by a contract (callback loop), an intrinsic or in-context execution
			callee := x.Call.StaticCallee()
			if x.Call.IsInvoke() {
				key := ifaceMethodKey(x.Call.Value.Type(), x.Call.Method.Name())
				if u.lookupContract(key) == nil {
					return true
				}
				continue
			}
			if callee == nil {
				return true
			}
			if _, ok := intrinsics[intrinsicName(callee)]; ok {
				continue
			}
			if u.lookupContract(funcKey(callee)) != nil {
				continue
			}
			if u.w.inRepo(fnPkgPath(callee)) && len(callee.Blocks) > 0 {
				continue // executed in context or verified with a default contract that cannot call the closure... conservative enough for helpers
			}
			return true
		case *ssa.Store:
			// stored into a local variable cell (e.g. inRangeStart = func...): fine if that cell does not escape
			if al, ok := x.Addr.(*ssa.Alloc); ok && x.Val == mc {
				if u.allocEscapes(al) {
					return true
				}
				continue
			}
			return true
		default:
			return true
		}
	}
	return false
}

// preserveLocals copies the cells of non-escaping locals from the state before a havoc-everything event into the
// state after it.
func (fr *Frame) preserveLocals(pre, post *State) {
	u := fr.u
	for _, lc := range u.localCells {
		for _, c := range fr.leafCellsAt(lc.typ, lc.addr) {
			vs := u.w.sortOf(c.typ)
			old := Select(u.heap(pre, c.key, vs), c.idx, vs)
			h := u.heap(post, c.key, vs)
			u.setHeap(post, c.key, u.define("Hk", Store(h, c.idx, old)))
		}
	}
}

// leafCellsAt lists the leaf cells of a value of type t located at address a.
func (fr *Frame) leafCellsAt(t types.Type, a Term) []cell {
	w := fr.u.w
	var out []cell
	var rec func(t types.Type, a Term)
	rec = func(t types.Type, a Term) {
		switch ut := t.Underlying().(type) {
		case *types.Struct:
			for i := 0; i < ut.NumFields(); i++ {
				ft := ut.Field(i).Type()
				if isComposite(ft) {
					rec(ft, LocAdd(a, IntLit(int64(w.fieldOffset(ut, i)))))
				} else {
					out = append(out, fr.fieldCell(t, a, i))
				}
			}
		case *types.Array:
			n := int(ut.Len())
			if n > 16 {
				return
			}
			sz := w.sizeOf(ut.Elem())
			for i := 0; i < n; i++ {
				rec(ut.Elem(), LocAdd(a, IntLit(int64(i*sz))))
			}
		default:
			out = append(out, w.typeCell(t, a))
		}
	}
	rec(t, a)
	return out
}

// closureEscapesAnywhere: is some MakeClosure of fn (in its parent) used in a way that is not executed in context?
func closureEscapesAnywhere(sh *Shared, cs *ContractSet, fn *ssa.Function) bool {
	parent := fn.Parent()
	if parent == nil {
		return false
	}
	tmp := newUnit(sh, cs, parent)
	for _, b := range parent.Blocks {
		for _, in := range b.Instrs {
			mc, ok := in.(*ssa.MakeClosure)
			if !ok || mc.Fn != ssa.Value(fn) {
				continue
			}
			if tmp.closureEscapes(mc, 0) {
				return true
			}
		}
	}
	return false
}

// writeOnceCell: the Alloc is a variable that is assigned exactly once (its initialisation: a parameter copy or a
// := of a captured variable) and otherwise only read, in its function and in every closure that captures it. Go's
// closures are the only code that can reach a captured variable, so whoever runs them (libraries, goroutines, unknown
// callees) cannot change it: its value survives every havoc.
func (u *Unit) writeOnceCell(a *ssa.Alloc) bool {
	if a.Heap == false && a.Comment == "" {
		return false
	}
	stores := 0
	var check func(v ssa.Value, depth int) bool
	check = func(v ssa.Value, depth int) bool {
		if depth > 5 {
			return false
		}
		refs := v.Referrers()
		if refs == nil {
			return true
		}
		for _, r := range *refs {
			switch x := r.(type) {
			case *ssa.DebugRef:
			case *ssa.UnOp:
				if x.Op != token.MUL {
					return false
				}
			case *ssa.Store:
				if x.Val == v || x.Addr != v {
					return false
				}
				// only the initialisation counts: a store in the declaring function, in the block of the declaration
				// (`var x T` is initialised by the allocation itself: a later store, or one in a closure, is a second
				// assignment)
				if depth > 0 || x.Block() != a.Block() {
					return false
				}
				stores++
			case *ssa.MakeClosure:
				fn, ok := x.Fn.(*ssa.Function)
				if !ok {
					return false
				}
				for i, b := range x.Bindings {
					if b == v {
						if i >= len(fn.FreeVars) || !check(fn.FreeVars[i], depth+1) {
							return false
						}
					}
				}
			default:
				return false
			}
		}
		return true
	}
	if !check(a, 0) {
		return false
	}
	return stores <= 1
}
