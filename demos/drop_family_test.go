package bttest_test

// Place this file at bigtable/bttest/zz_seed_demo_test.go (external test package bttest_test)
// and run:  go test -vet=off -count=1 -run TestDemoDropFamilyManyRows ./bttest/

import (
	"context"
	"fmt"
	"io"
	"sort"
	"strings"
	"testing"
	"time"

	btapb "cloud.google.com/go/bigtable/admin/apiv2/adminpb"
	btpb "cloud.google.com/go/bigtable/apiv2/bigtablepb"
	"github.com/fullstorydev/emulators/bigtable/bttest"
	"google.golang.org/grpc"
	"google.golang.org/grpc/credentials/insecure"
)

func ddReadAll(ctx context.Context, t *testing.T, c btpb.BigtableClient, table string) []string {
	t.Helper()
	stream, err := c.ReadRows(ctx, &btpb.ReadRowsRequest{TableName: table})
	if err != nil {
		t.Fatalf("ReadRows: %v", err)
	}
	var out []string
	var row, qual []byte
	var fam string
	for {
		msg, err := stream.Recv()
		if err == io.EOF {
			break
		}
		if err != nil {
			t.Fatalf("ReadRows recv: %v", err)
		}
		for _, ch := range msg.Chunks {
			if ch.RowKey != nil {
				row = ch.RowKey
			}
			if ch.FamilyName != nil {
				fam = ch.FamilyName.Value
			}
			if ch.Qualifier != nil {
				qual = ch.Qualifier.Value
			}
			out = append(out, fmt.Sprintf("%s/%s:%s=%s", row, fam, qual, ch.Value))
		}
	}
	sort.Strings(out)
	return out
}

func TestDemoDropFamilyManyRows(t *testing.T) {
	engines := []struct {
		name    string
		storage func(t *testing.T) bttest.Storage
	}{
		{"leveldb-mem", func(t *testing.T) bttest.Storage { return bttest.LeveldbMemStorage{} }},
		{"btree", func(t *testing.T) bttest.Storage { return bttest.BtreeStorage{} }},
		{"leveldb-disk", func(t *testing.T) bttest.Storage { return bttest.LeveldbDiskStorage{Root: t.TempDir()} }},
	}
	for _, eng := range engines {
		eng := eng
		t.Run(eng.name, func(t *testing.T) {
			srv, err := bttest.NewServerWithOptions("127.0.0.1:0", bttest.Options{Storage: eng.storage(t)})
			if err != nil {
				t.Fatal(err)
			}
			defer srv.Close()

			ctx, cancel := context.WithTimeout(context.Background(), 20*time.Second)
			defer cancel()
			conn, err := grpc.DialContext(ctx, srv.Addr, grpc.WithTransportCredentials(insecure.NewCredentials()), grpc.WithBlock())
			if err != nil {
				t.Fatal(err)
			}
			defer conn.Close()
			admin := btapb.NewBigtableTableAdminClient(conn)
			data := btpb.NewBigtableClient(conn)

			const parent = "projects/p/instances/i"
			const table = parent + "/tables/t"

			if _, err := admin.CreateTable(ctx, &btapb.CreateTableRequest{
				Parent:  parent,
				TableId: "t",
				Table: &btapb.Table{ColumnFamilies: map[string]*btapb.ColumnFamily{
					"keep": {},
					"old":  {},
				}},
			}); err != nil {
				t.Fatalf("CreateTable: %v", err)
			}

			set := func(row, fam, val string) {
				t.Helper()
				if _, err := data.MutateRow(ctx, &btpb.MutateRowRequest{
					TableName: table,
					RowKey:    []byte(row),
					Mutations: []*btpb.Mutation{{Mutation: &btpb.Mutation_SetCell_{SetCell: &btpb.Mutation_SetCell{
						FamilyName:      fam,
						ColumnQualifier: []byte("q"),
						TimestampMicros: 1000,
						Value:           []byte(val),
					}}}},
				}); err != nil {
					t.Fatalf("MutateRow %s/%s: %v", row, fam, err)
				}
			}
			for i := 0; i < 40; i++ {
				row := fmt.Sprintf("r%03d", i)
				set(row, "old", "o")
				if i%2 == 1 {
					set(row, "keep", "k")
				}
			}
			if _, err := admin.ModifyColumnFamilies(ctx, &btapb.ModifyColumnFamiliesRequest{
				Name: table,
				Modifications: []*btapb.ModifyColumnFamiliesRequest_Modification{
					{Id: "old", Mod: &btapb.ModifyColumnFamiliesRequest_Modification_Drop{Drop: true}},
				},
			}); err != nil {
				t.Fatalf("ModifyColumnFamilies drop: %v", err)
			}
			// A family created later under the dropped name must start without cells.
			if _, err := admin.ModifyColumnFamilies(ctx, &btapb.ModifyColumnFamiliesRequest{
				Name: table,
				Modifications: []*btapb.ModifyColumnFamiliesRequest_Modification{
					{Id: "old", Mod: &btapb.ModifyColumnFamiliesRequest_Modification_Create{Create: &btapb.ColumnFamily{}}},
				},
			}); err != nil {
				t.Fatalf("ModifyColumnFamilies re-create: %v", err)
			}
			for _, c := range ddReadAll(ctx, t, data, table) {
				if strings.Contains(c, "/old:") {
					t.Errorf("cell of the dropped family survived: %s", c)
				}
			}
		})
	}
}
