package bttest

// Demonstration for the repair "GC and family drop write rows back after the iteration" (place in bigtable/bttest/,
// package bttest). 350 rows (more than three GC batches): every third row holds only condemned cells (the row must
// disappear), every third row holds three versions under max-versions=1, the others are untouched. One forced GC
// pass must collect all of them on every engine; before the repair the btree engine panicked in (*BTree).Ascend
// (rows deleted during the iteration) and skipped rows.

import (
	"context"
	"fmt"
	"testing"
	"time"

	"cloud.google.com/go/bigtable"
	btapb "cloud.google.com/go/bigtable/admin/apiv2/adminpb"
	btpb "cloud.google.com/go/bigtable/apiv2/bigtablepb"
	"google.golang.org/protobuf/types/known/durationpb"
)

func TestDemoGCBatches(t *testing.T) {
	for _, st := range []struct {
		name    string
		storage Storage
	}{
		{"btree", BtreeStorage{}},
		{"leveldbmem", LeveldbMemStorage{}},
		{"leveldbdisk", LeveldbDiskStorage{Root: t.TempDir()}},
	} {
		t.Run(st.name, func(t *testing.T) {
			ctx := context.Background()
			const hour = int64(time.Hour / time.Microsecond)
			now := bigtable.Timestamp(10 * hour)
			svr := &server{tables: make(map[string]*table), storage: st.storage, clock: func() bigtable.Timestamp { return now }, done: make(chan struct{})}
			const parent = "projects/p/instances/i"
			const tblName = parent + "/tables/demo"
			if _, err := svr.CreateTable(ctx, &btapb.CreateTableRequest{Parent: parent, TableId: "demo", Table: &btapb.Table{ColumnFamilies: map[string]*btapb.ColumnFamily{
				"ver":  {GcRule: &btapb.GcRule{Rule: &btapb.GcRule_MaxNumVersions{MaxNumVersions: 1}}},
				"age":  {GcRule: &btapb.GcRule{Rule: &btapb.GcRule_MaxAge{MaxAge: durationpb.New(time.Hour)}}},
				"keep": {},
			}}}); err != nil {
				t.Fatal(err)
			}
			set := func(row, fam string, ts int64) {
				if _, err := svr.MutateRow(ctx, &btpb.MutateRowRequest{TableName: tblName, RowKey: []byte(row), Mutations: []*btpb.Mutation{{Mutation: &btpb.Mutation_SetCell_{SetCell: &btpb.Mutation_SetCell{
					FamilyName: fam, ColumnQualifier: []byte("q"), TimestampMicros: ts, Value: []byte("v")}}}}}); err != nil {
					t.Fatal(err)
				}
			}
			const rows = 350
			for i := 0; i < rows; i++ {
				row := fmt.Sprintf("r%04d", i)
				switch i % 3 {
				case 0:
					set(row, "age", 1000) // older than one hour: the whole row goes
				case 1:
					set(row, "ver", 1000)
					set(row, "ver", 2000)
					set(row, "ver", 3000)
				default:
					set(row, "keep", 1000)
					set(row, "keep", 2000)
				}
			}
			tbl := svr.tables[tblName]
			tbl.gc(svr.clock(), svr.done, true)
			got := map[string]int{}
			tbl.mu.RLock()
			tbl.rows.Ascend(func(r *btpb.Row) bool {
				n := 0
				for _, f := range r.Families {
					for _, c := range f.Columns {
						n += len(c.Cells)
					}
				}
				got[string(r.Key)] = n
				return true
			})
			tbl.mu.RUnlock()
			for i := 0; i < rows; i++ {
				row := fmt.Sprintf("r%04d", i)
				want := []int{0, 1, 2}[i%3]
				n, ok := got[row]
				if want == 0 && ok {
					t.Errorf("row %s should have been collected, has %d cells", row, n)
				}
				if want > 0 && n != want {
					t.Errorf("row %s: %d cells after GC, want %d", row, n, want)
				}
			}
		})
	}
}
